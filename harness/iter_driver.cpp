// harness/iter_driver.cpp — implementation side of C20: nitro::lang::enumerate and nitro::lang::reverse in range-for loops.
//
// case:  <adaptor> <kind> <mode> <elems>
//   adaptor  en = enumerate, rv = reverse
//   kind     vec std::vector<int>, deq std::deque<int>, set std::set<int> (elems ascending; no mode l), str std::string (elems are
//            character codes; no mode l), arr std::array<int,N>, list std::list<int>, map std::map<int,int> (keys 0..n-1),
//            carr int[N] (N >= 1), il std::initializer_list<int>, fv nitro::lang::fixed_vector<int>,
//            ui a user-defined multi-pass range whose bidirectional iterator OWNS state (a std::shared_ptr to the store and a std::string):
//            copying it is a real copy and MOVING it leaves the source visibly different (null store, position 0 — equal to every
//            other moved-from iterator, as for a directory iterator or a libstdc++ debug-mode iterator)
//   mode     l lvalue (the body writes through what it is given), c const lvalue, r temporary inside the for statement,
//            m std::move of a local, k CONST temporary (a function returning `const C` by value, called inside the for
//            statement), s static_cast<const C&&>(temporary), q std::move of a const local
//   elems    comma separated ints, "." = none
// observation:  V <visits> A <alias bits | -> C <container afterwards | ->
//   visits   enumerate: index:value,...   reverse: value,...   ("." = none)
//   alias    per visit: does the visited object have the address of the container element it should be (lvalue, const)
//   C        contents after the loop whose body assigned  f(index, value) = 3*value + index + 1  (enumerate)
//            resp. f(value) = 3*value + 7 (reverse)  through the adaptor (mode l only)
// case:  re <scenario> <kind> <mode> <elems>     — the SAME adaptor object / container used more than once
//   kind vec | list | map | fv | ui;  mode l: adaptor over an lvalue container, r: adaptor object owning a temporary
//   en3 / rv3     (modes l, c const lvalue, r) ONE named adaptor: three range-for statements over it (the second one writes through it in
//                 mode l), then begin() twice and end() twice on the same adaptor and the two iterator pairs run, last pair first
//                                                                                    -> V5 <visits 1> .. <visits 5> C <contents | ->
//   en2 / rv2     auto e = enumerate(c); for (x : e) ..; for (x : e) ..;             -> V2 <visits 1> <visits 2>
//   enen / enrv   for (x : enumerate(c)) for (y : enumerate(c) resp. reverse(c)) ..  -> NN i:v=<inner visits>|i:v=<inner visits>...
//   enmod / rvmod adaptor created, THEN every element replaced in place by g(v) = 2*v + 1, then iterated (mode l)
//                                                                                    -> V <visits> A - C <contents>
//   enbe / rvbe   (e.begin() != e.end()) before a loop over e, after it, and with begin()/end() stored in variables
//                 first; number of visits of the loop                                -> BE <3 bits> <count>
// case:  mc <scenario> <kind> <mode> <elemsA> <elemsB> [<elemsC>]   — SEVERAL containers of one kind, element type and length
//   alive at once.  kind carr | arr | vec | list | fv;  mode l adaptors over lvalue containers, o adaptors owning copies
//   n<o><i><w>   for (x : <o>(A)) { for (y : <i>(B)) ..; [write through x] }   o, i in {r reverse, e enumerate}; w in {w, -}
//                                                  -> N2 <x>=<inner visits>|<x>=<inner visits>... C <A afterwards> <B afterwards>
//   n3           reverse(A) { reverse(B) { reverse(C) } }     -> N3 x=y{z,z}+y{z,z}|... C <A> <B> <C>
//   s<p><q><k><w> auto ra = <p>(A); auto rb = <q>(B); then iterate ra, rb in the order k (1: ra first, 2: rb first); the loop run
//                first writes through its elements when w = w          -> S2 <visits of ra> <visits of rb> C <A afterwards> <B afterwards>
// case:  ow <scenario> <adaptor en|rv> <kind> <elems1> <elems2>   — an OWNING adaptor (adaptor(temporary container), kept in a
//   variable) is relocated.  kind vec | list | fv | arr | il (enumerate({..}) / reverse({..}))
//   cp   b = a (copy); iterate b, then a                 cpd  copy of a heap-held adaptor, the source destroyed, iterate the copy
//   mv   b = std::move(a); iterate b                     mvd  moved from a heap-held adaptor, the source destroyed
//   asg  b = a; a = adaptor(elems2); iterate b, a        masg b = adaptor(elems2); b = std::move(*heap source); source destroyed
//   ret  returned by value through a non-elided path (two candidates), both results iterated
//   vec  pushed into a std::vector of adaptors that reallocates; elements 0 and 1 iterated
//   opt  std::optional moved into another optional, the first reset
//                                                        -> OW <visits 1> <visits 2 | ->   (each adaptor must show its OWN elements)
// case:  mi <adaptor en|rv> <kind vec|list|map|fv> <mode l|r> <elems>   — MANUAL iteration over begin()/end() of a stored adaptor
//   -> MI <pre> <post> <old> <copy1> <copy2> <foreach> [X <eqloop> <distance> <std::copy> <*std::next(begin, n/2)>]
//   pre: for (it = b; it != e; ++it)   post: for (...; it++)   old: auto o = it++; use *o   copy1/copy2: after n/2 steps the
//   iterator is copied and both copies are run to the end   foreach: std::for_each(b, e, ..)
//   X (reverse only: its iterators are std::reverse_iterator, which declare ==, iterator_traits, bidirectional category;
//   the enumerate iterator declares only *, ++, ++(int), != and no iterator_traits, so nothing more is asked of it)
// case:  et <adaptor en|rv> <elemtype any|val|ilt> <kind vec|list|il> <mode l|r> <elems>   — element types that are constructible
//   from a container / initializer list of themselves (std::any, a recursive Value(std::vector<Value>), a type with an
//   initializer_list-of-itself constructor); elems are the int tags of the elements   -> ET <number of visits> <visits>
//   (a visit shows the element's own tag: any_cast<int>, Value::tag; an element that wraps a container shows -1 / -2)
// case:  bf <form> <kind vec|list|deq|map|fv|arr|carr> <elems>   — the BINDING FORM of the loop variable of enumerate over an
//   lvalue range of std::string elements (element = decimal text of the tag):  a `auto p`, f `auto&& p`, c `const auto& p`,
//   k `const auto p`, h the pair handed to a helper taking it by const&  (`auto& p` does not compile: operator* returns a prvalue)
//   body: is &p.value() the element's own address?  then  p.value() += "x"  (write-through)   -> BF <alias bits> <container afterwards>
// The temporaries of mode r are created inside the range-for statement itself, so that a dangling adaptor is an
// AddressSanitizer report (observation CRASH(...)).
#include "common.hpp"
#include <nitro/lang/enumerate.hpp>
#include <nitro/lang/fixed_vector.hpp>
#include <nitro/lang/reverse.hpp>

#include <algorithm>
#include <any>
#include <array>
#include <functional>
#include <initializer_list>
#include <iterator>
#include <deque>
#include <list>
#include <set>
#include <map>
#include <memory>
#include <optional>
#include <vector>

namespace nl = nitro::lang;
using Elems = std::vector<int>;

// a multi-pass range with a user-defined iterator that owns state; see "ui" above
struct UIRange
{
    std::shared_ptr<std::vector<int>> store;
    struct iterator
    {
        using iterator_category = std::bidirectional_iterator_tag;
        using value_type = int;
        using difference_type = std::ptrdiff_t;
        using pointer = int*;
        using reference = int&;
        std::shared_ptr<std::vector<int>> s;
        std::size_t pos = 0;
        std::string label;
        iterator() = default;
        iterator(std::shared_ptr<std::vector<int>> st, std::size_t p) : s(std::move(st)), pos(p), label("iterator into a shared store; too long for the small-string buffer") {}
        iterator(const iterator&) = default;
        iterator& operator=(const iterator&) = default;
        iterator(iterator&& o) noexcept : s(std::move(o.s)), pos(o.pos), label(std::move(o.label)) { o.s.reset(); o.pos = 0; o.label.clear(); }
        iterator& operator=(iterator&& o) noexcept
        {
            if (this != &o) { s = std::move(o.s); pos = o.pos; label = std::move(o.label); o.s.reset(); o.pos = 0; o.label.clear(); }
            return *this;
        }
        int& operator*() const { return (*s)[pos]; }
        int* operator->() const { return &(*s)[pos]; }
        iterator& operator++() { ++pos; return *this; }
        iterator operator++(int) { iterator o = *this; ++pos; return o; }
        iterator& operator--() { --pos; return *this; }
        iterator operator--(int) { iterator o = *this; --pos; return o; }
        bool operator==(const iterator& o) const { return s == o.s && pos == o.pos; }
        bool operator!=(const iterator& o) const { return !(*this == o); }
    };
    using const_iterator = iterator;   // a view-like range: constness is shallow
    using reverse_iterator = std::reverse_iterator<iterator>;
    using const_reverse_iterator = reverse_iterator;
    using value_type = int;
    UIRange() : store(std::make_shared<std::vector<int>>()) {}
    explicit UIRange(const Elems& e) : store(std::make_shared<std::vector<int>>(e)) {}
    UIRange(const UIRange& o) : store(std::make_shared<std::vector<int>>(*o.store)) {}
    UIRange(UIRange&& o) noexcept : store(std::move(o.store)) { o.store = std::make_shared<std::vector<int>>(); }
    UIRange& operator=(const UIRange& o) { if (this != &o) store = std::make_shared<std::vector<int>>(*o.store); return *this; }
    UIRange& operator=(UIRange&& o) noexcept { if (this != &o) { store = std::move(o.store); o.store = std::make_shared<std::vector<int>>(); } return *this; }
    iterator begin() const { return iterator(store, 0); }
    iterator end() const { return iterator(store, store->size()); }
    iterator cbegin() const { return begin(); }
    iterator cend() const { return end(); }
    reverse_iterator rbegin() const { return reverse_iterator(end()); }
    reverse_iterator rend() const { return reverse_iterator(begin()); }
    reverse_iterator crbegin() const { return rbegin(); }
    reverse_iterator crend() const { return rend(); }
    std::size_t size() const { return store->size(); }
};

static int fe(std::size_t i, int v) { return 3 * v + static_cast<int>(i) + 1; }
static int fr(int v) { return 3 * v + 7; }

// the int an element stands for, and the int lvalue a write goes to
static int val(const int& v) { return v; }
static int val(const char& v) { return v; }
static const void* addr(const char& v) { return &v; }
static int val(const std::pair<const int, int>& p) { return p.second; }
static int val(const std::reference_wrapper<int>& r) { return r.get(); }
static int val(const std::reference_wrapper<const int>& r) { return r.get(); }
static int& slot(int& v) { return v; }
static int& slot(std::pair<const int, int>& p) { return p.second; }
static int& slot(const std::reference_wrapper<int>& r) { return r.get(); }
static const void* addr(const int& v) { return &v; }
static const void* addr(const std::pair<const int, int>& p) { return &p; }
static const void* addr(const std::reference_wrapper<int>& r) { return &r.get(); }
static const void* addr(const std::reference_wrapper<const int>& r) { return &r.get(); }

struct Obs
{
    std::string vis, alias, cont = "-";
    std::size_t count = 0;
    bool runaway = false;
    void visit_e(std::size_t i, int v) { if (!vis.empty()) vis += ","; vis += std::to_string(i) + ":" + std::to_string(v); }
    void visit_r(int v) { if (!vis.empty()) vis += ","; vis += std::to_string(v); }
    std::string str(bool with_alias) const
    {
        if (runaway) return "RUNAWAY";
        return "V " + (vis.empty() ? std::string(".") : vis) + " A " + (with_alias ? (alias.empty() ? std::string(".") : alias) : std::string("-")) + " C " + cont;
    }
};
template <class C> std::vector<const void*> addresses(const C& c)
{
    std::vector<const void*> a;
    for (auto& e : c) a.push_back(addr(e));
    return a;
}
template <class C> std::string contents(const C& c)
{
    std::string r;
    for (auto& e : c) { if (!r.empty()) r += ","; r += std::to_string(val(e)); }
    return r.empty() ? "." : r;
}

static void join(std::string& acc, const char* sep, const std::string& item) { if (!acc.empty()) acc += sep; acc += item; }
static std::string dot(const std::string& s) { return s.empty() ? std::string(".") : s; }

// ---- lvalue / const lvalue ranges ----
template <class C> std::string en_lvalue(C& c, bool write)
{
    auto a = addresses(c);
    Obs o;
    for (auto x : nl::enumerate(c))
    {
        if (o.count > a.size() + 2) { o.runaway = true; break; }
        auto&& ref = x.value();
        o.visit_e(x.index(), val(ref));
        o.alias += (o.count < a.size() && addr(ref) == a[o.count]) ? '1' : '0';
        if constexpr (!std::is_const<std::remove_reference_t<decltype(ref)>>::value && !std::is_const<C>::value)
        {
            if (write) slot(ref) = fe(x.index(), val(ref));
        }
        o.count++;
    }
    if (write) o.cont = contents(c);
    return o.str(true);
}
template <class C> std::string rv_lvalue(C& c, bool write)
{
    auto a = addresses(c);
    Obs o;
    for (auto& x : nl::reverse(c))
    {
        if (o.count > a.size() + 2) { o.runaway = true; break; }
        o.visit_r(val(x));
        o.alias += (o.count < a.size() && addr(x) == a[a.size() - 1 - o.count]) ? '1' : '0';
        if constexpr (!std::is_const<C>::value && !std::is_const<std::remove_all_extents_t<C>>::value)
        {
            if (write) slot(x) = fr(val(x));
        }
        o.count++;
    }
    if (write) o.cont = contents(c);
    return o.str(true);
}
// ---- temporaries: the range expression is evaluated inside the for statement ----
template <class Mk> std::string en_rvalue(Mk mk, std::size_t n)
{
    Obs o;
    for (auto x : nl::enumerate(mk()))
    {
        if (o.count > n + 2) { o.runaway = true; break; }
        o.visit_e(x.index(), val(x.value()));
        o.count++;
    }
    return o.str(false);
}
template <class Mk> std::string rv_rvalue(Mk mk, std::size_t n)
{
    Obs o;
    for (auto& x : nl::reverse(mk()))
    {
        if (o.count > n + 2) { o.runaway = true; break; }
        o.visit_r(val(x));
        o.count++;
    }
    return o.str(false);
}
template <class C> std::string en_moved(C c, std::size_t n)
{
    Obs o;
    for (auto x : nl::enumerate(std::move(c)))
    {
        if (o.count > n + 2) { o.runaway = true; break; }
        o.visit_e(x.index(), val(x.value()));
        o.count++;
    }
    return o.str(false);
}
template <class C> std::string rv_moved(C c, std::size_t n)
{
    Obs o;
    for (auto& x : nl::reverse(std::move(c)))
    {
        if (o.count > n + 2) { o.runaway = true; break; }
        o.visit_r(val(x));
        o.count++;
    }
    return o.str(false);
}

// const rvalues: the adaptor must own these too
template <class Mk> std::string en_constcast(Mk mk, std::size_t n)
{
    using C = decltype(mk());
    Obs o;
    for (auto x : nl::enumerate(static_cast<const C&&>(mk())))
    {
        if (o.count > n + 2) { o.runaway = true; break; }
        o.visit_e(x.index(), val(x.value()));
        o.count++;
    }
    return o.str(false);
}
template <class Mk> std::string rv_constcast(Mk mk, std::size_t n)
{
    using C = decltype(mk());
    Obs o;
    for (auto& x : nl::reverse(static_cast<const C&&>(mk())))
    {
        if (o.count > n + 2) { o.runaway = true; break; }
        o.visit_r(val(x));
        o.count++;
    }
    return o.str(false);
}
template <class C> std::string en_constmoved(const C c, std::size_t n)
{
    Obs o;
    for (auto x : nl::enumerate(std::move(c)))
    {
        if (o.count > n + 2) { o.runaway = true; break; }
        o.visit_e(x.index(), val(x.value()));
        o.count++;
    }
    return o.str(false);
}
template <class C> std::string rv_constmoved(const C c, std::size_t n)
{
    Obs o;
    for (auto& x : nl::reverse(std::move(c)))
    {
        if (o.count > n + 2) { o.runaway = true; break; }
        o.visit_r(val(x));
        o.count++;
    }
    return o.str(false);
}

// ---- one container kind in every mode ----
template <class Mk> std::string run_container(bool en, char mode, Mk mk, std::size_t n)
{
    using C = decltype(mk());
    switch (mode)
    {
    case 'l':
        if constexpr (std::is_same<C, std::set<int>>::value || std::is_same<C, std::string>::value) return "BADCASE";
        else { C c = mk(); return en ? en_lvalue(c, true) : rv_lvalue(c, true); }
    case 'c': { const C c = mk(); return en ? en_lvalue(c, false) : rv_lvalue(c, false); }
    case 'r': return en ? en_rvalue(mk, n) : rv_rvalue(mk, n);
    case 'm': return en ? en_moved(mk(), n) : rv_moved(mk(), n);
    case 'k': { auto cmk = [&mk]() -> const C { return mk(); }; return en ? en_rvalue(cmk, n) : rv_rvalue(cmk, n); }
    case 's': return en ? en_constcast(mk, n) : rv_constcast(mk, n);
    case 'q': return en ? en_constmoved<C>(mk(), n) : rv_constmoved<C>(mk(), n);
    }
    return "BADCASE";
}

// ---- the same adaptor object / container used more than once ----
static int gm(int v) { return 2 * v + 1; }
template <class Ad> std::string visits_en(Ad& e, std::size_t n)
{
    Obs o;
    for (auto x : e)
    {
        if (o.count > n + 2) return "RUNAWAY";
        o.visit_e(x.index(), val(x.value()));
        o.count++;
    }
    return o.vis.empty() ? "." : o.vis;
}
template <class Ad> std::string visits_rv(Ad& r, std::size_t n)
{
    Obs o;
    for (auto& x : r)
    {
        if (o.count > n + 2) return "RUNAWAY";
        o.visit_r(val(x));
        o.count++;
    }
    return o.vis.empty() ? "." : o.vis;
}
template <class Ad, class Vis> std::string scenario_on(const std::string& sc, Ad& e, std::size_t n, Vis vis)
{
    if (sc == "en2" || sc == "rv2")
    {
        std::string a = vis(e, n);
        std::string b = vis(e, n);
        return "V2 " + a + " " + b;
    }
    if (sc == "enbe" || sc == "rvbe")
    {
        bool b1 = e.begin() != e.end();
        std::string v = vis(e, n);
        bool b2 = e.begin() != e.end();
        auto bb = e.begin();
        auto ee = e.end();
        bool b3 = bb != ee;
        std::size_t cnt = v == "." ? 0 : 1 + std::count(v.begin(), v.end(), ',');
        return std::string("BE ") + (b1 ? '1' : '0') + (b2 ? '1' : '0') + (b3 ? '1' : '0') + " " + (v == "RUNAWAY" ? v : std::to_string(cnt));
    }
    return "BADCASE";
}
template <class C, class Ad> std::string passes_en(Ad& e, bool write, std::size_t n);
template <class C, class Ad> std::string passes_rv(Ad& r, bool write, std::size_t n);
template <class Mk> std::string run_reuse(const std::string& sc, char mode, Mk mk, std::size_t n)
{
    using C = decltype(mk());
    if (sc == "en3")
    {
        if (mode == 'l') { C c = mk(); auto e = nl::enumerate(c); std::string v = passes_en<C>(e, true, n); return v + " C " + contents(c); }
        if (mode == 'c') { const C c = mk(); auto e = nl::enumerate(c); return passes_en<const C>(e, false, n) + " C -"; }
        if (mode == 'r') { auto e = nl::enumerate(mk()); return passes_en<const C>(e, false, n) + " C -"; }
        return "BADCASE";
    }
    if (sc == "rv3")
    {
        if (mode == 'l') { C c = mk(); auto r = nl::reverse(c); std::string v = passes_rv<C>(r, true, n); return v + " C " + contents(c); }
        if (mode == 'c') { const C c = mk(); auto r = nl::reverse(c); return passes_rv<const C>(r, false, n) + " C -"; }
        if (mode == 'r') { auto r = nl::reverse(mk()); return passes_rv<const C>(r, false, n) + " C -"; }
        return "BADCASE";
    }
    auto ven = [](auto& e, std::size_t k) { return visits_en(e, k); };
    auto vrv = [](auto& e, std::size_t k) { return visits_rv(e, k); };
    if (sc == "en2" || sc == "enbe")
    {
        if (mode == 'l') { C c = mk(); auto e = nl::enumerate(c); return scenario_on(sc, e, n, ven); }
        if (mode == 'r') { auto e = nl::enumerate(mk()); return scenario_on(sc, e, n, ven); }
    }
    if (sc == "rv2" || sc == "rvbe")
    {
        if (mode == 'l') { C c = mk(); auto r = nl::reverse(c); return scenario_on(sc, r, n, vrv); }
        if (mode == 'r') { auto r = nl::reverse(mk()); return scenario_on(sc, r, n, vrv); }
    }
    if (sc == "nest")   // enumerate(reverse(c)): the outer adaptor owns the inner one
    {
        Obs o;
        if (mode == 'l')
        {
            C c = mk();
            for (auto x : nl::enumerate(nl::reverse(c))) { if (o.count++ > n + 2) return "RUNAWAY"; o.visit_e(x.index(), val(x.value())); }
        }
        else if (mode == 'r')
        {
            for (auto x : nl::enumerate(nl::reverse(mk()))) { if (o.count++ > n + 2) return "RUNAWAY"; o.visit_e(x.index(), val(x.value())); }
        }
        else return "BADCASE";
        return "V " + dot(o.vis) + " A - C -";
    }
    if (sc == "cad")    // begin()/end() on a CONST adaptor object (the forms that have const begin()/end())
    {
        std::string a, b;
        if (mode == 'l')
        {
            C c = mk();
            const auto r = nl::reverse(c);
            a = visits_rv(r, n);
            b = a;
        }
        else if (mode == 'r')
        {
            const auto r = nl::reverse(mk());
            const auto e = nl::enumerate(mk());
            a = visits_rv(r, n);
            b = visits_en(e, n);
        }
        else return "BADCASE";
        return "V2 " + a + " " + b;
    }
    if ((sc == "enen" || sc == "enrv") && mode == 'l')
    {
        C c = mk();
        std::string out;
        std::size_t outer = 0;
        for (auto x : nl::enumerate(c))
        {
            if (outer++ > n + 2) return "RUNAWAY";
            Obs in;
            if (sc == "enen")
            {
                for (auto y : nl::enumerate(c)) { if (in.count > n + 2) return "RUNAWAY"; in.visit_e(y.index(), val(y.value())); in.count++; }
            }
            else
            {
                for (auto& y : nl::reverse(c)) { if (in.count > n + 2) return "RUNAWAY"; in.visit_r(val(y)); in.count++; }
            }
            if (!out.empty()) out += "|";
            out += std::to_string(x.index()) + ":" + std::to_string(val(x.value())) + "=" + (in.vis.empty() ? std::string(".") : in.vis);
        }
        return "NN " + (out.empty() ? std::string(".") : out);
    }
    if ((sc == "enmod" || sc == "rvmod") && mode == 'l')
    {
        C c = mk();
        if (sc == "enmod")
        {
            auto e = nl::enumerate(c);
            for (auto& el : c) slot(el) = gm(val(el));
            std::string v = visits_en(e, n);
            return "V " + v + " A - C " + contents(c);
        }
        auto r = nl::reverse(c);
        for (auto& el : c) slot(el) = gm(val(el));
        std::string v = visits_rv(r, n);
        return "V " + v + " A - C " + contents(c);
    }
    return "BADCASE";
}

// ---- several containers of the same kind / element type / length alive at once ----
template <class C> struct Hold
{
    C c;
    C& get() { return c; }
    C copy() const { return c; }
};
template <std::size_t N> struct HoldC
{
    int c[N];
    int (&get())[N] { return c; }
};
template <bool OWNED, class H> auto make_r(H& h)
{
    if constexpr (OWNED) return nl::reverse(h.copy());
    else return nl::reverse(h.get());
}
template <bool OWNED, class H> auto make_e(H& h)
{
    if constexpr (OWNED) return nl::enumerate(h.copy());
    else return nl::enumerate(h.get());
}
template <bool OWNED, class Ad, class Body> bool each_r(Ad&& ad, std::size_t n, Body body)
{
    std::size_t k = 0;
    for (auto& x : ad)
    {
        if (k++ > n + 2) return false;
        if (!body(std::to_string(val(x)), [&] { if constexpr (!OWNED) slot(x) = fr(val(x)); })) return false;
    }
    return true;
}
template <bool OWNED, class Ad, class Body> bool each_e(Ad&& ad, std::size_t n, Body body)
{
    std::size_t k = 0;
    for (auto x : ad)
    {
        if (k++ > n + 2) return false;
        auto&& ref = x.value();
        if (!body(std::to_string(x.index()) + ":" + std::to_string(val(ref)), [&] { if constexpr (!OWNED) slot(ref) = fe(x.index(), val(ref)); })) return false;
    }
    return true;
}
template <bool OWNED, class H, class Body> bool over(char ad, H& h, std::size_t n, Body body)
{
    if (ad == 'r') return each_r<OWNED>(make_r<OWNED>(h), n, body);
    return each_e<OWNED>(make_e<OWNED>(h), n, body);
}

template <bool OWNED, class H> std::string run_multi(const std::string& sc, H& ha, H& hb, H* hc, std::size_t n)
{
    auto isad = [](char c) { return c == 'r' || c == 'e'; };
    if (sc.size() == 4 && sc[0] == 'n' && isad(sc[1]) && isad(sc[2]) && (sc[3] == 'w' || sc[3] == '-') && !hc)
    {
        if (OWNED && sc[3] == 'w') return "BADCASE";
        std::string out;
        bool ok = over<OWNED>(sc[1], ha, n, [&](const std::string& xv, auto write) {
            std::string in;
            if (!over<OWNED>(sc[2], hb, n, [&](const std::string& yv, auto) { join(in, ",", yv); return true; })) return false;
            if (sc[3] == 'w') write();
            join(out, "|", xv + "=" + dot(in));
            return true;
        });
        if (!ok) return "RUNAWAY";
        return "N2 " + dot(out) + " C " + contents(ha.get()) + " " + contents(hb.get());
    }
    if (sc == "n3" && hc)
    {
        std::string out;
        bool ok = over<OWNED>('r', ha, n, [&](const std::string& xv, auto) {
            std::string mid;
            if (!over<OWNED>('r', hb, n, [&](const std::string& yv, auto) {
                    std::string in;
                    if (!over<OWNED>('r', *hc, n, [&](const std::string& zv, auto) { join(in, ",", zv); return true; })) return false;
                    join(mid, "+", yv + "{" + in + "}");
                    return true;
                }))
                return false;
            join(out, "|", xv + "=" + dot(mid));
            return true;
        });
        if (!ok) return "RUNAWAY";
        return "N3 " + dot(out) + " C " + contents(ha.get()) + " " + contents(hb.get()) + " " + contents(hc->get());
    }
    if (sc.size() == 5 && sc[0] == 's' && isad(sc[1]) && isad(sc[2]) && (sc[3] == '1' || sc[3] == '2') && (sc[4] == 'w' || sc[4] == '-') && !hc)
    {
        if (OWNED && sc[4] == 'w') return "BADCASE";
        std::string va, vb;
        bool ok = true;
        auto with = [&](char ad, H& h, auto k) {
            if (ad == 'r') { auto a = make_r<OWNED>(h); k(a, std::true_type{}); }
            else { auto a = make_e<OWNED>(h); k(a, std::false_type{}); }
        };
        auto run = [&](auto& ad, auto isr, std::string& acc, bool wr) {
            auto body = [&](const std::string& v, auto write) { if (wr) write(); join(acc, ",", v); return true; };
            if constexpr (decltype(isr)::value) ok = each_r<OWNED>(ad, n, body) && ok;
            else ok = each_e<OWNED>(ad, n, body) && ok;
        };
        with(sc[1], ha, [&](auto& ra, auto isr1) {
            with(sc[2], hb, [&](auto& rb, auto isr2) {
                bool w = sc[4] == 'w';
                if (sc[3] == '1') { run(ra, isr1, va, w); run(rb, isr2, vb, false); }
                else { run(rb, isr2, vb, w); run(ra, isr1, va, false); }
            });
        });
        if (!ok) return "RUNAWAY";
        return "S2 " + dot(va) + " " + dot(vb) + " C " + contents(ha.get()) + " " + contents(hb.get());
    }
    return "BADCASE";
}
template <std::size_t N = 0, class F> std::string by_size(std::size_t n, F f)
{
    if constexpr (N > 4) return "BADCASE";   // arrays of up to 4 elements in the multi-container scenarios
    else
    {
        if (n == N) return f(std::integral_constant<std::size_t, N>{});
        return by_size<N + 1>(n, f);
    }
}
template <class H> std::string run_multi_mode(const std::string& sc, char mode, H& ha, H& hb, H* hc, std::size_t n)
{
    if (mode == 'l') return run_multi<false>(sc, ha, hb, hc, n);
    if (mode == 'o') return run_multi<true>(sc, ha, hb, hc, n);
    return "BADCASE";
}

// ---- owning adaptors that are copied / moved / assigned / stored ----
template <bool EN, class Ad> std::string ow_vis(Ad& a, std::size_t n)
{
    if constexpr (EN) return visits_en(a, n);
    else return visits_rv(a, n);
}
template <bool EN, class Mk1, class Mk2> std::string run_owned(const std::string& sc, Mk1 make1, Mk2 make2, std::size_t n)
{
    using Ad = decltype(make1());
    static_assert(std::is_same<Ad, decltype(make2())>::value, "one adaptor type");
    auto vis = [n](Ad& a) { return ow_vis<EN>(a, n); };
    if (sc == "cp") { Ad a = make1(); Ad b = a; std::string vb = vis(b); return "OW " + vb + " " + vis(a); }
    if (sc == "cpd") { auto src = std::make_unique<Ad>(make1()); Ad b = *src; src.reset(); return "OW " + vis(b) + " -"; }
    if (sc == "mv") { Ad a = make1(); Ad b = std::move(a); return "OW " + vis(b) + " -"; }
    if (sc == "mvd") { auto src = std::make_unique<Ad>(make1()); Ad b = std::move(*src); src.reset(); return "OW " + vis(b) + " -"; }
    if (sc == "asg") { Ad a = make1(); Ad b = a; a = make2(); std::string vb = vis(b); return "OW " + vb + " " + vis(a); }
    if (sc == "masg") { auto src = std::make_unique<Ad>(make1()); Ad b = make2(); b = std::move(*src); src.reset(); return "OW " + vis(b) + " -"; }
    if (sc == "ret")
    {
        auto f = [&](bool first) -> Ad { Ad x = make1(); Ad y = make2(); if (first) return x; return y; };
        Ad r1 = f(true);
        Ad r2 = f(false);
        std::string v1 = vis(r1);
        return "OW " + v1 + " " + vis(r2);
    }
    if (sc == "vec")
    {
        std::vector<Ad> v;
        v.push_back(make1());
        v.push_back(make2());
        v.push_back(make1());
        v.push_back(make2());
        std::string v0 = vis(v[0]);
        return "OW " + v0 + " " + vis(v[1]);
    }
    if (sc == "opt")
    {
        std::optional<Ad> o(make1());
        std::optional<Ad> o2(std::move(o));
        o.reset();
        return "OW " + vis(*o2) + " -";
    }
    return "BADCASE";
}
template <bool EN, class MkC> std::string run_owned_container(const std::string& sc, MkC mk, const Elems& e1, const Elems& e2)
{
    auto ad = [&mk](const Elems& e) { if constexpr (EN) return nl::enumerate(mk(e)); else return nl::reverse(mk(e)); };
    return run_owned<EN>(sc, [&] { return ad(e1); }, [&] { return ad(e2); }, e1.size());
}
// the initializer_list form needs its elements spelled out
template <bool EN, std::size_t N> auto il_adaptor(const Elems& e)
{
    static_assert(N >= 1 && N <= 4, "1..4 elements");
    if constexpr (N == 1) { if constexpr (EN) return nl::enumerate({ e[0] }); else return nl::reverse({ e[0] }); }
    else if constexpr (N == 2) { if constexpr (EN) return nl::enumerate({ e[0], e[1] }); else return nl::reverse({ e[0], e[1] }); }
    else if constexpr (N == 3) { if constexpr (EN) return nl::enumerate({ e[0], e[1], e[2] }); else return nl::reverse({ e[0], e[1], e[2] }); }
    else { if constexpr (EN) return nl::enumerate({ e[0], e[1], e[2], e[3] }); else return nl::reverse({ e[0], e[1], e[2], e[3] }); }
}
template <bool EN> std::string run_owned_kind(const std::string& sc, const std::string& k, const Elems& e1, const Elems& e2)
{
    std::size_t n = e1.size();
    if (k == "vec") return run_owned_container<EN>(sc, [](const Elems& e) { return std::vector<int>(e.begin(), e.end()); }, e1, e2);
    if (k == "list") return run_owned_container<EN>(sc, [](const Elems& e) { return std::list<int>(e.begin(), e.end()); }, e1, e2);
    if (k == "fv")
        return run_owned_container<EN>(sc, [](const Elems& e) { nl::fixed_vector<int> v(e.size() + 2); for (int x : e) v.push_back(x); return v; }, e1, e2);
    if (k == "arr")
        return by_size(n, [&](auto N) {
            constexpr std::size_t K = decltype(N)::value;
            return run_owned_container<EN>(sc, [](const Elems& e) { std::array<int, K> a{}; for (std::size_t i = 0; i < K; i++) a[i] = e[i]; return a; }, e1, e2);
        });
    if (k == "il")
        return by_size(n, [&](auto N) -> std::string {
            constexpr std::size_t K = decltype(N)::value;
            if constexpr (K == 0) return "BADCASE";
            else return run_owned<EN>(sc, [&] { return il_adaptor<EN, K>(e1); }, [&] { return il_adaptor<EN, K>(e2); }, n);
        });
    return "BADCASE";
}

// ---- manual iteration over begin()/end() ----
template <bool EN, class It> std::string show(It& it)
{
    if constexpr (EN) { auto x = *it; return std::to_string(x.index()) + ":" + std::to_string(val(x.value())); }
    else return std::to_string(val(*it));
}
// ONE named adaptor: three range-for statements (the second writes when it can), then begin()/end() asked for twice each
template <class C, class Ad> std::string passes_en(Ad& e, bool write, std::size_t n)
{
    std::string v1 = visits_en(e, n);
    Obs o;
    for (auto x : e)
    {
        if (o.count > n + 2) return "RUNAWAY";
        auto&& ref = x.value();
        o.visit_e(x.index(), val(ref));
        if constexpr (!std::is_const<std::remove_reference_t<decltype(ref)>>::value && !std::is_const<C>::value)
        {
            if (write) slot(ref) = fe(x.index(), val(ref));
        }
        o.count++;
    }
    std::string v3 = visits_en(e, n);
    auto b1 = e.begin();
    auto b2 = e.begin();
    auto e1 = e.end();
    auto e2 = e.end();
    std::string v4, v5;
    std::size_t k = 0;
    for (auto it = b2; it != e2; ++it) { if (k++ > n + 3) return "RUNAWAY"; join(v4, ",", show<true>(it)); }
    k = 0;
    for (auto it = b1; it != e1; ++it) { if (k++ > n + 3) return "RUNAWAY"; join(v5, ",", show<true>(it)); }
    return "V5 " + v1 + " " + dot(o.vis) + " " + v3 + " " + dot(v4) + " " + dot(v5);
}
template <class C, class Ad> std::string passes_rv(Ad& r, bool write, std::size_t n)
{
    std::string v1 = visits_rv(r, n);
    Obs o;
    for (auto& x : r)
    {
        if (o.count > n + 2) return "RUNAWAY";
        o.visit_r(val(x));
        if constexpr (!std::is_const<std::remove_reference_t<decltype(x)>>::value && !std::is_const<C>::value)
        {
            if (write) slot(x) = fr(val(x));
        }
        o.count++;
    }
    std::string v3 = visits_rv(r, n);
    auto b1 = r.begin();
    auto b2 = r.begin();
    auto e1 = r.end();
    auto e2 = r.end();
    std::string v4, v5;
    std::size_t k = 0;
    for (auto it = b2; it != e2; ++it) { if (k++ > n + 3) return "RUNAWAY"; join(v4, ",", show<false>(it)); }
    k = 0;
    for (auto it = b1; it != e1; ++it) { if (k++ > n + 3) return "RUNAWAY"; join(v5, ",", show<false>(it)); }
    return "V5 " + v1 + " " + dot(o.vis) + " " + v3 + " " + dot(v4) + " " + dot(v5);
}
template <bool EN, class Ad> std::string manual(Ad& a, std::size_t n)
{
    const std::size_t lim = n + 3;
    std::string pre, post, old, c1, c2, fe_;
    std::size_t k = 0;
    for (auto it = a.begin(); it != a.end(); ++it) { if (k++ > lim) return "RUNAWAY"; join(pre, ",", show<EN>(it)); }
    k = 0;
    for (auto it = a.begin(); it != a.end(); it++) { if (k++ > lim) return "RUNAWAY"; join(post, ",", show<EN>(it)); }
    k = 0;
    {
        auto it = a.begin();
        while (it != a.end()) { if (k++ > lim) return "RUNAWAY"; auto o = it++; join(old, ",", show<EN>(o)); }
    }
    {
        auto it = a.begin();
        for (std::size_t i = 0; i < n / 2 && it != a.end(); i++) ++it;
        auto it2 = it;
        k = 0;
        while (it != a.end()) { if (k++ > lim) return "RUNAWAY"; join(c1, ",", show<EN>(it)); ++it; }
        k = 0;
        while (it2 != a.end()) { if (k++ > lim) return "RUNAWAY"; join(c2, ",", show<EN>(it2)); it2++; }
    }
    k = 0;
    if constexpr (EN)
        std::for_each(a.begin(), a.end(), [&](auto x) { if (k++ <= lim) join(fe_, ",", std::to_string(x.index()) + ":" + std::to_string(val(x.value()))); });
    else
        std::for_each(a.begin(), a.end(), [&](auto& x) { if (k++ <= lim) join(fe_, ",", std::to_string(val(x))); });
    if constexpr (EN)
    {
        // const iterator (operator*() const) and const proxy (index() const, value() const)
        std::string ck;
        k = 0;
        for (auto it = a.begin(); it != a.end(); ++it)
        {
            if (k++ > lim) return "RUNAWAY";
            const auto cit = it;
            const auto px = *cit;
            join(ck, ",", std::to_string(px.index()) + ":" + std::to_string(val(px.value())));
        }
        fe_ = dot(fe_) + " K " + dot(ck);
    }
    std::string r = "MI " + dot(pre) + " " + dot(post) + " " + dot(old) + " " + dot(c1) + " " + dot(c2) + " " + dot(fe_);
    if constexpr (!EN)
    {
        std::string eq;
        k = 0;
        for (auto it = a.begin(); !(it == a.end()); ++it) { if (k++ > lim) return "RUNAWAY"; join(eq, ",", show<EN>(it)); }
        auto d = std::distance(a.begin(), a.end());
        std::vector<int> out;
        std::transform(a.begin(), a.end(), std::back_inserter(out), [](auto& x) { return val(x); });
        std::string cp;
        for (int v : out) join(cp, ",", std::to_string(v));
        std::string nx = ".";
        if (n > 0) { auto it = std::next(a.begin(), n / 2); nx = show<EN>(it); }
        r += " X " + dot(eq) + " " + std::to_string(d) + " " + dot(cp) + " " + nx;
    }
    return r;
}
template <class Mk> std::string run_manual(bool en, char mode, Mk mk, std::size_t n)
{
    using C = decltype(mk());
    if (mode == 'l')
    {
        C c = mk();
        if (en) { auto a = nl::enumerate(c); return manual<true>(a, n); }
        auto a = nl::reverse(c);
        return manual<false>(a, n);
    }
    if (mode == 'r')
    {
        if (en) { auto a = nl::enumerate(mk()); return manual<true>(a, n); }
        auto a = nl::reverse(mk());
        return manual<false>(a, n);
    }
    return "BADCASE";
}

// ---- element types constructible from their own container ----
struct Value
{
    int tag;
    std::vector<Value> kids;
    Value(int t) : tag(t) {}
    Value(std::vector<Value> k) : tag(-1), kids(std::move(k)) {}
    Value(std::list<Value> k) : tag(-1), kids(k.begin(), k.end()) {}
};
struct ILT
{
    int tag;
    std::size_t n = 0;
    ILT(int t) : tag(t) {}
    ILT(std::initializer_list<ILT> l) : tag(-2), n(l.size()) {}
};
static int tag_of(const std::any& a) { return a.type() == typeid(int) ? std::any_cast<int>(a) : -1; }
static int tag_of(const Value& v) { return v.tag; }
static int tag_of(const ILT& v) { return v.tag; }
static int tag_of(const std::unique_ptr<int>& p) { return p ? *p : -9; }
template <class E, class C> C make_elems(const Elems& e)
{
    C c;
    for (int v : e)
    {
        if constexpr (std::is_same<E, std::unique_ptr<int>>::value) c.push_back(std::make_unique<int>(v));
        else c.push_back(E(v));
    }
    return c;
}
template <bool EN, class R> std::string et_loop(R&& range, std::size_t n)
{
    std::string vis;
    std::size_t k = 0;
    if constexpr (EN)
    {
        for (auto x : range) { if (k++ > n + 3) return "RUNAWAY"; join(vis, ",", std::to_string(x.index()) + ":" + std::to_string(tag_of(x.value()))); }
    }
    else
    {
        for (auto& x : range) { if (k++ > n + 3) return "RUNAWAY"; join(vis, ",", std::to_string(tag_of(x))); }
    }
    return "ET " + std::to_string(k) + " " + dot(vis);
}
template <bool EN, class E, class C> std::string et_container(char mode, const Elems& e)
{
    if (mode == 'l')
    {
        C c = make_elems<E, C>(e);
        if constexpr (std::is_same<E, std::unique_ptr<int>>::value)
        {
            // move-only elements: move each one out through the adaptor and put a new one (tag + 1000) in its place
            if constexpr (EN) { for (auto x : nl::enumerate(c)) { auto old = std::move(x.value()); x.value() = std::make_unique<int>(*old + 1000); } }
            else { for (auto& x : nl::reverse(c)) { auto old = std::move(x); x = std::make_unique<int>(*old + 1000); } }
        }
        if constexpr (EN) return et_loop<EN>(nl::enumerate(c), e.size());
        else return et_loop<EN>(nl::reverse(c), e.size());
    }
    if (mode == 'r')
    {
        if constexpr (EN) return et_loop<EN>(nl::enumerate(make_elems<E, C>(e)), e.size());
        else return et_loop<EN>(nl::reverse(make_elems<E, C>(e)), e.size());
    }
    return "BADCASE";
}
template <bool EN, class E> std::string et_braced(const Elems& e)
{
    switch (e.size())
    {
    case 1: if constexpr (EN) return et_loop<EN>(nl::enumerate({ E(e[0]) }), 1); else return et_loop<EN>(nl::reverse({ E(e[0]) }), 1);
    case 2: if constexpr (EN) return et_loop<EN>(nl::enumerate({ E(e[0]), E(e[1]) }), 2); else return et_loop<EN>(nl::reverse({ E(e[0]), E(e[1]) }), 2);
    case 3: if constexpr (EN) return et_loop<EN>(nl::enumerate({ E(e[0]), E(e[1]), E(e[2]) }), 3); else return et_loop<EN>(nl::reverse({ E(e[0]), E(e[1]), E(e[2]) }), 3);
    case 4: if constexpr (EN) return et_loop<EN>(nl::enumerate({ E(e[0]), E(e[1]), E(e[2]), E(e[3]) }), 4); else return et_loop<EN>(nl::reverse({ E(e[0]), E(e[1]), E(e[2]), E(e[3]) }), 4);
    }
    return "BADCASE";
}
template <bool EN, class E> std::string et_kind(const std::string& k, char mode, const Elems& e)
{
    if (k == "vec") return et_container<EN, E, std::vector<E>>(mode, e);
    if (k == "list") return et_container<EN, E, std::list<E>>(mode, e);
    if constexpr (!std::is_same<E, std::unique_ptr<int>>::value)
    {
        if (k == "il" && mode == 'r') return et_braced<EN, E>(e);   // a braced list copies its elements: not for move-only ones
    }
    return "BADCASE";
}
template <bool EN> std::string et_type(const std::string& t, const std::string& k, char mode, const Elems& e)
{
    if (t == "any") return et_kind<EN, std::any>(k, mode, e);
    if (t == "val") return et_kind<EN, Value>(k, mode, e);
    if (t == "ilt") return et_kind<EN, ILT>(k, mode, e);
    if (t == "up") return et_kind<EN, std::unique_ptr<int>>(k, mode, e);
    return "BADCASE";
}

// ---- binding forms of the enumerate loop variable, class-type elements ----
// written so that they also accept a COPY handed out by value(): the observation, not the compiler, must show the loss
static const void* addr_text(const std::string& s) { return &s; }
static const void* addr_text(const std::pair<const int, std::string>& p) { return &p.second; }
static void append_x(std::string& s) { s += "x"; }
static void append_x(std::string&& s) { s += "x"; }
static void append_x(std::pair<const int, std::string>& p) { p.second += "x"; }
static void append_x(std::pair<const int, std::string>&& p) { p.second += "x"; }
static std::string& text_of(std::string& s) { return s; }
static std::string& text_of(std::pair<const int, std::string>& p) { return p.second; }
template <class P> void bf_helper(const P& p, const void* want, std::string& alias)
{
    alias += (addr_text(p.value()) == want) ? '1' : '0';
    append_x(p.value());
}
template <class C> std::string run_binding(char form, C& c, std::size_t n)
{
    std::vector<const void*> want;
    for (auto& e : c) want.push_back(&text_of(e));
    std::string alias;
    std::size_t k = 0;
#define BF_BODY                                                                                                        \
    {                                                                                                                  \
        if (k > n + 2) return "RUNAWAY";                                                                               \
        alias += (k < want.size() && addr_text(p.value()) == want[k]) ? '1' : '0';                                     \
        append_x(p.value());                                                                                           \
        k++;                                                                                                           \
    }
    switch (form)
    {
    case 'a': for (auto p : nl::enumerate(c)) BF_BODY break;
    case 'f': for (auto&& p : nl::enumerate(c)) BF_BODY break;
    case 'c': for (const auto& p : nl::enumerate(c)) BF_BODY break;
    case 'k': for (const auto p : nl::enumerate(c)) BF_BODY break;
    case 'h': for (auto p : nl::enumerate(c)) { if (k > n + 2) return "RUNAWAY"; bf_helper(p, k < want.size() ? want[k] : nullptr, alias); k++; } break;
    default: return "BADCASE";
    }
#undef BF_BODY
    std::string cont;
    for (auto& e : c) join(cont, ",", text_of(e));
    return "BF " + dot(alias) + " " + dot(cont);
}
static std::string run_binding_kind(char form, const std::string& k, const Elems& e)
{
    std::vector<std::string> t;
    for (int v : e) t.push_back(std::to_string(v));
    std::size_t n = t.size();
    if (k == "vec") { std::vector<std::string> c(t); return run_binding(form, c, n); }
    if (k == "list") { std::list<std::string> c(t.begin(), t.end()); return run_binding(form, c, n); }
    if (k == "deq") { std::deque<std::string> c(t.begin(), t.end()); return run_binding(form, c, n); }
    if (k == "map") { std::map<int, std::string> c; for (std::size_t i = 0; i < n; i++) c.emplace(static_cast<int>(i), t[i]); return run_binding(form, c, n); }
    if (k == "fv") { nl::fixed_vector<std::string> c(n + 2); for (auto& x : t) c.push_back(x); return run_binding(form, c, n); }
    if (k == "arr")
        return by_size(n, [&](auto N) { constexpr std::size_t K = decltype(N)::value; std::array<std::string, K> c; for (std::size_t i = 0; i < K; i++) c[i] = t[i]; return run_binding(form, c, n); });
    if (k == "carr")
        return by_size(n, [&](auto N) -> std::string {
            constexpr std::size_t K = decltype(N)::value;
            if constexpr (K == 0) return "BADCASE";
            else { std::string c[K]; for (std::size_t i = 0; i < K; i++) c[i] = t[i]; return run_binding(form, c, n); }
        });
    return "BADCASE";
}

constexpr std::size_t MAXN = 6;

template <std::size_t N> std::string run_arr(bool en, char mode, const Elems& e)
{
    auto mk = [&e] { std::array<int, N> a{}; for (std::size_t i = 0; i < N; i++) a[i] = e[i]; return a; };
    return run_container(en, mode, mk, N);
}
template <std::size_t N> std::string run_carr(bool en, char mode, const Elems& e)
{
    if constexpr (N == 0) return "BADCASE";
    else
    {
        if (mode == 'l')
        {
            int c[N];
            for (std::size_t i = 0; i < N; i++) c[i] = e[i];
            return en ? en_lvalue(c, true) : rv_lvalue(c, true);
        }
        if (mode == 'c')
        {
            int c0[N];
            for (std::size_t i = 0; i < N; i++) c0[i] = e[i];
            const int(&c)[N] = c0;
            return en ? en_lvalue(c, false) : rv_lvalue(c, false);
        }
        return "BADCASE";
    }
}
// initializer lists need their elements spelled out
template <std::size_t N> struct IL;
#define ILDEF(N, ...)                                                                                                  \
    template <> struct IL<N>                                                                                           \
    {                                                                                                                  \
        static std::string run(bool en, char mode, const Elems& e)                                                     \
        {                                                                                                              \
            if (mode == 'r')                                                                                           \
            {                                                                                                          \
                Obs o;                                                                                                 \
                if (en) { for (auto x : nl::enumerate({ __VA_ARGS__ })) { if (o.count > N + 2) { o.runaway = true; break; } o.visit_e(x.index(), val(x.value())); o.count++; } } \
                else { for (auto& x : nl::reverse({ __VA_ARGS__ })) { if (o.count > N + 2) { o.runaway = true; break; } o.visit_r(val(x)); o.count++; } } \
                return o.str(false);                                                                                   \
            }                                                                                                          \
            std::initializer_list<int> il = { __VA_ARGS__ };                                                           \
            if (mode == 'm') return en ? en_moved(il, N) : rv_moved(il, N);                                            \
            if (mode == 'l' && en) return en_lvalue(il, false);                                                        \
            if (mode == 'c' && en) { const std::initializer_list<int> cil = il; return en_lvalue(cil, false); }        \
            return "BADCASE";                                                                                          \
        }                                                                                                              \
    };
ILDEF(1, e[0])
ILDEF(2, e[0], e[1])
ILDEF(3, e[0], e[1], e[2])
ILDEF(4, e[0], e[1], e[2], e[3])
ILDEF(5, e[0], e[1], e[2], e[3], e[4])
ILDEF(6, e[0], e[1], e[2], e[3], e[4], e[5])
#undef ILDEF
template <> struct IL<0>
{
    static std::string run(bool en, char mode, const Elems&)
    {
        std::initializer_list<int> il = {};
        if (mode == 'm') return en ? en_moved(il, 0) : rv_moved(il, 0);
        if (mode == 'l' && en) return en_lvalue(il, false);
        if (mode == 'c' && en) { const std::initializer_list<int> cil = il; return en_lvalue(cil, false); }
        return "BADCASE";   // enumerate({}) cannot deduce the element type
    }
};

template <template <std::size_t> class F, std::size_t N = 0> struct BySize
{
    static std::string run(std::size_t n, bool en, char mode, const Elems& e)
    {
        if constexpr (N > MAXN) return "BADCASE";
        else
        {
            if (n == N) return F<N>::run(en, mode, e);
            return BySize<F, N + 1>::run(n, en, mode, e);
        }
    }
};
template <std::size_t N> struct ArrF { static std::string run(bool en, char mode, const Elems& e) { return run_arr<N>(en, mode, e); } };
template <std::size_t N> struct CArrF { static std::string run(bool en, char mode, const Elems& e) { return run_carr<N>(en, mode, e); } };

static std::string run_case(const std::vector<std::string>& w)
{
    if (w.size() == 6 && w[0] == "ow" && (w[2] == "en" || w[2] == "rv"))
    {
        Elems e1, e2;
        if (w[4] != ".") for (auto& t : vh::split_on(w[4], ',')) e1.push_back(std::atoi(t.c_str()));
        if (w[5] != ".") for (auto& t : vh::split_on(w[5], ',')) e2.push_back(std::atoi(t.c_str()));
        if (e1.size() != e2.size()) return "BADCASE";
        return w[2] == "en" ? run_owned_kind<true>(w[1], w[3], e1, e2) : run_owned_kind<false>(w[1], w[3], e1, e2);
    }
    if ((w.size() == 6 || w.size() == 7) && w[0] == "mc" && w[3].size() == 1)
    {
        std::vector<Elems> es;
        for (std::size_t k = 4; k < w.size(); k++)
        {
            Elems e;
            if (w[k] != ".")
                for (auto& t : vh::split_on(w[k], ',')) e.push_back(std::atoi(t.c_str()));
            es.push_back(e);
        }
        std::size_t n = es[0].size();
        for (auto& e : es) if (e.size() != n) return "BADCASE";
        const bool three = es.size() == 3;
        const std::string& sc = w[1];
        const std::string& k = w[2];
        char mode = w[3][0];
        auto go = [&](auto mk) {
            using H = decltype(mk(es[0]));
            H ha = mk(es[0]), hb = mk(es[1]);
            if (three) { H hc = mk(es[2]); return run_multi_mode(sc, mode, ha, hb, &hc, n); }
            return run_multi_mode(sc, mode, ha, hb, static_cast<H*>(nullptr), n);
        };
        if (k == "vec") return go([](const Elems& e) { return Hold<std::vector<int>>{ std::vector<int>(e.begin(), e.end()) }; });
        if (k == "list") return go([](const Elems& e) { return Hold<std::list<int>>{ std::list<int>(e.begin(), e.end()) }; });
        if (k == "fv")
            return go([](const Elems& e) { nl::fixed_vector<int> v(e.size() + 2); for (int x : e) v.push_back(x); return Hold<nl::fixed_vector<int>>{ std::move(v) }; });
        if (k == "arr")
            return by_size(n, [&](auto N) {
                constexpr std::size_t K = decltype(N)::value;
                return go([](const Elems& e) { Hold<std::array<int, K>> h{}; for (std::size_t i = 0; i < K; i++) h.c[i] = e[i]; return h; });
            });
        if (k == "carr")
            return by_size(n, [&](auto N) -> std::string {
                constexpr std::size_t K = decltype(N)::value;
                if constexpr (K == 0) return "BADCASE";
                else
                {
                    if (mode != 'l') return "BADCASE";
                    auto mk = [](const Elems& e) { HoldC<K> h; for (std::size_t i = 0; i < K; i++) h.c[i] = e[i]; return h; };
                    HoldC<K> ha = mk(es[0]), hb = mk(es[1]);
                    if (three) { HoldC<K> hc = mk(es[2]); return run_multi<false>(sc, ha, hb, &hc, n); }
                    return run_multi<false>(sc, ha, hb, static_cast<HoldC<K>*>(nullptr), n);
                }
            });
        return "BADCASE";
    }
    if (w.size() == 4 && w[0] == "bf" && w[1].size() == 1)
    {
        Elems e;
        if (w[3] != ".")
            for (auto& t : vh::split_on(w[3], ',')) e.push_back(std::atoi(t.c_str()));
        return run_binding_kind(w[1][0], w[2], e);
    }
    if (w.size() == 6 && w[0] == "et" && (w[1] == "en" || w[1] == "rv") && w[4].size() == 1)
    {
        Elems e;
        if (w[5] != ".")
            for (auto& t : vh::split_on(w[5], ',')) e.push_back(std::atoi(t.c_str()));
        return w[1] == "en" ? et_type<true>(w[2], w[3], w[4][0], e) : et_type<false>(w[2], w[3], w[4][0], e);
    }
    if (w.size() == 5 && w[0] == "mi" && (w[1] == "en" || w[1] == "rv") && w[3].size() == 1)
    {
        Elems e;
        if (w[4] != ".")
            for (auto& t : vh::split_on(w[4], ',')) e.push_back(std::atoi(t.c_str()));
        const std::string& k = w[2];
        bool en = w[1] == "en";
        char mode = w[3][0];
        std::size_t n = e.size();
        if (k == "vec") return run_manual(en, mode, [&e] { return std::vector<int>(e.begin(), e.end()); }, n);
        if (k == "list") return run_manual(en, mode, [&e] { return std::list<int>(e.begin(), e.end()); }, n);
        if (k == "map")
            return run_manual(en, mode, [&e] { std::map<int, int> m; for (std::size_t i = 0; i < e.size(); i++) m.emplace(static_cast<int>(i), e[i]); return m; }, n);
        if (k == "fv")
            return run_manual(en, mode, [&e] { nl::fixed_vector<int> v(e.size() + 2); for (int x : e) v.push_back(x); return v; }, n);
        if (k == "ui") return run_manual(en, mode, [&e] { return UIRange(e); }, n);
        return "BADCASE";
    }
    if (w.size() == 5 && w[0] == "re" && w[3].size() == 1)
    {
        Elems e;
        if (w[4] != ".")
            for (auto& t : vh::split_on(w[4], ',')) e.push_back(std::atoi(t.c_str()));
        const std::string& k = w[2];
        char mode = w[3][0];
        std::size_t n = e.size();
        if (k == "vec") return run_reuse(w[1], mode, [&e] { return std::vector<int>(e.begin(), e.end()); }, n);
        if (k == "list") return run_reuse(w[1], mode, [&e] { return std::list<int>(e.begin(), e.end()); }, n);
        if (k == "map")
            return run_reuse(w[1], mode, [&e] { std::map<int, int> m; for (std::size_t i = 0; i < e.size(); i++) m.emplace(static_cast<int>(i), e[i]); return m; }, n);
        if (k == "fv")
            return run_reuse(w[1], mode, [&e] { nl::fixed_vector<int> v(e.size() + 2); for (int x : e) v.push_back(x); return v; }, n);
        if (k == "ui") return run_reuse(w[1], mode, [&e] { return UIRange(e); }, n);
        return "BADCASE";
    }
    if (w.size() != 4 || (w[0] != "en" && w[0] != "rv") || w[2].size() != 1) return "BADCASE";
    bool en = w[0] == "en";
    char mode = w[2][0];
    Elems e;
    if (w[3] != ".")
        for (auto& t : vh::split_on(w[3], ',')) e.push_back(std::atoi(t.c_str()));
    const std::string& k = w[1];
    std::size_t n = e.size();
    if (k == "vec") return run_container(en, mode, [&e] { return std::vector<int>(e.begin(), e.end()); }, n);
    if (k == "list") return run_container(en, mode, [&e] { return std::list<int>(e.begin(), e.end()); }, n);
    if (k == "deq") return run_container(en, mode, [&e] { return std::deque<int>(e.begin(), e.end()); }, n);
    if (k == "set" && mode != 'l') return run_container(en, mode, [&e] { return std::set<int>(e.begin(), e.end()); }, n);
    if (k == "str" && mode != 'l') return run_container(en, mode, [&e] { std::string t; for (int x : e) t.push_back(static_cast<char>(x)); return t; }, n);
    if (k == "map")
        return run_container(en, mode, [&e] { std::map<int, int> m; for (std::size_t i = 0; i < e.size(); i++) m.emplace(static_cast<int>(i), e[i]); return m; }, n);
    if (k == "fv")
        return run_container(en, mode, [&e] { nl::fixed_vector<int> v(e.size() + 2); for (int x : e) v.push_back(x); return v; }, n);
    if (k == "ui") return run_container(en, mode, [&e] { return UIRange(e); }, n);
    if (k == "arr") return BySize<ArrF>::run(n, en, mode, e);
    if (k == "carr") return BySize<CArrF>::run(n, en, mode, e);
    if (k == "il") return BySize<IL>::run(n, en, mode, e);
    return "BADCASE";
}
int main(int argc, char** argv) { return vh::driver_main(argc, argv, run_case); }

/* harness/dl_lib_b.c — tiny shared object "b" for the nitro::dl check (C19); built by props/C19.py */
int vdl_f(int x) { return x + 200; }
int vdl_g(int x) { return 3 * x + 2; }

/* harness/dl_lib_a.c — tiny shared object "a" for the nitro::dl check (C19); built by props/C19.py */
int vdl_f(int x) { return x + 100; }
int vdl_g(int x) { return 2 * x + 1; }
int vdl_only_a(int x) { return x * x + 7; }

// harness/str_driver.cpp — implementation side of the string cluster (C17): nitro::lang::split/join/replace_all/starts_with
#include "common.hpp"
#include <nitro/lang/string.hpp>
#include <iterator>
#include <sstream>

// elements that are neither strings nor numbers: join renders them through their own operator<<
struct Row { std::vector<std::string> fields; std::string inner; };
static std::ostream& operator<<(std::ostream& os, const Row& r) { return os << nitro::lang::join(r.fields, r.inner); }   // re-enters join
struct HexNum { long v; };
static std::ostream& operator<<(std::ostream& os, const HexNum& h) { return os << std::hex << h.v; }                     // leaves hex set

static std::string run_case(const std::vector<std::string>& w)
{
    using namespace vh;
    if (w.size() == 3 && w[0] == "split")
    {
        try
        {
            auto r = nitro::lang::split(unhex(w[2]), unhex(w[1]));
            const std::string hay = unhex(w[2]), needle = unhex(w[1]);
            if (nitro::lang::split(hay, needle) != r) return "L-VALUE-CATEGORIES-DIFFER";
            return "L " + wire_strs(r);
        }
        catch (const nitro::except::exception&) { return "RAISE"; }
    }
    if (w.size() == 4 && w[0] == "replace")
    {
        std::string s = unhex(w[3]);
        nitro::lang::replace_all(s, unhex(w[1]), unhex(w[2]));
        return "S " + hex(s);
    }
    if (w.size() == 4 && w[0] == "replacea")
    {
        // arguments that are the subject string itself (the model has values, the code has references)
        std::string s = unhex(w[2]);
        if (w[1] == "1") nitro::lang::replace_all(s, s, unhex(w[3]));
        else if (w[1] == "2") nitro::lang::replace_all(s, unhex(w[3]), s);
        else if (w[1] == "3") nitro::lang::replace_all(s, s, s);
        else return "BADCASE";
        return "S " + hex(s);
    }
    if (w.size() == 3 && w[0] == "starts") return nitro::lang::starts_with(unhex(w[1]), unhex(w[2])) ? "B 1" : "B 0";
    if (w.size() == 3 && w[0] == "join")
    {
        auto l = unwire_strs(w[2]);
        // both overloads must agree
        auto a = nitro::lang::join(l, unhex(w[1]));
        auto b = nitro::lang::join(l.begin(), l.end(), unhex(w[1]));
        if (a != b) return "S-OVERLOADS-DIFFER " + hex(a) + " " + hex(b);
        // the list in every value category: const lvalue, temporary, std::move(named); the infix as lvalue and temporary
        const std::vector<std::string> cl(l);
        std::vector<std::string> victim(l);
        const std::string infix = unhex(w[1]);
        auto c = nitro::lang::join(cl, infix);
        auto d = nitro::lang::join(std::vector<std::string>(l), infix);
        auto e = nitro::lang::join(std::move(victim), std::string(infix));
        if (c != a || d != a || e != a) return "S-VALUE-CATEGORIES-DIFFER " + hex(a) + " " + hex(c) + " " + hex(d) + " " + hex(e);
        if (cl != l) return "S-ARGUMENT-MODIFIED";
        return "S " + hex(a);
    }
    if (w.size() == 3 && w[0] == "joinc")
    {
        // ranges of character types: each element is rendered as the character, not as a number
        std::string text = unhex(w[2]);
        auto a = nitro::lang::join(text.begin(), text.end(), unhex(w[1]));
        std::vector<unsigned char> uc(text.begin(), text.end());
        auto b = nitro::lang::join(uc.begin(), uc.end(), unhex(w[1]));
        std::vector<signed char> sc(text.begin(), text.end());
        auto c = nitro::lang::join(sc.begin(), sc.end(), unhex(w[1]));
        const char* raw = text.data();
        auto d = nitro::lang::join(raw, raw + text.size(), unhex(w[1]));
        if (a != b || a != c || a != d) return "S-CHAR-TYPES-DIFFER " + hex(a) + " " + hex(b) + " " + hex(c) + " " + hex(d);
        return "S " + hex(a);
    }
    if (w.size() == 3 && w[0] == "joinw")
    {
        // single-pass iterators: the elements can be read once only
        auto l = unwire_strs(w[2]);
        std::string text;
        for (auto& e : l) { text += e; text += ' '; }
        std::istringstream in(text);
        auto a = nitro::lang::join(std::istream_iterator<std::string>(in), std::istream_iterator<std::string>(), unhex(w[1]));
        std::istringstream in2(text);
        std::vector<std::string> again{ std::istream_iterator<std::string>(in2), std::istream_iterator<std::string>() };
        if (again != l) return "BADCASE";
        return "S " + hex(a);
    }
    if (w.size() == 4 && w[0] == "joinn")
    {
        // rows of fields: the element's operator<< calls join itself
        std::vector<Row> rows;
        if (w[3] != ".") for (auto& r : split_on(w[3], '/')) rows.push_back(Row{ unwire_strs(r), unhex(w[2]) });
        auto a = nitro::lang::join(rows.begin(), rows.end(), unhex(w[1]));
        return "S " + hex(a);
    }
    if (w.size() == 3 && w[0] == "joinh")
    {
        // elements whose operator<< changes the formatting state of the stream it is given; afterwards the same numbers as plain longs
        std::vector<HexNum> hs; std::vector<long> l;
        if (w[2] != ".") for (auto& e : split_on(w[2], ',')) { l.push_back(std::atol(e.c_str())); hs.push_back(HexNum{ l.back() }); }
        auto a = nitro::lang::join(hs.begin(), hs.end(), unhex(w[1]));
        auto b = nitro::lang::join(l.begin(), l.end(), unhex(w[1]));
        auto c = nitro::lang::join(hs.begin(), hs.end(), unhex(w[1]));
        if (a != c) return "S-REPEAT-DIFFERS " + hex(a) + " " + hex(c);
        return "S " + hex(a) + " " + hex(b);
    }
    if (w.size() == 2 && w[0] == "joind")
    {
        // the default infix of both overloads
        auto l = unwire_strs(w[1]);
        auto a = nitro::lang::join(l);
        auto b = nitro::lang::join(l.begin(), l.end());
        if (a != b) return "S-OVERLOADS-DIFFER " + hex(a) + " " + hex(b);
        auto d = nitro::lang::join(std::vector<std::string>(l));
        if (d != a) return "S-VALUE-CATEGORIES-DIFFER " + hex(a) + " " + hex(d);
        return "S " + hex(a);
    }
    if (w.size() == 3 && w[0] == "joini")
    {
        // elements that are not strings: rendered through the stringstream inside join
        std::vector<long> l;
        if (w[2] != ".") for (auto& e : split_on(w[2], ',')) l.push_back(std::atol(e.c_str()));
        auto a = nitro::lang::join(l.begin(), l.end(), unhex(w[1]));
        return "S " + hex(a);
    }
    return "BADCASE";
}
int main(int argc, char** argv) { return vh::driver_main(argc, argv, run_case); }

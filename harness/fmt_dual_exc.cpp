// harness/fmt_dual_exc.cpp — C08: the message of an exception made from ONE or TWO arguments in their real C++ types
// (every combination of the real kinds; see fmt_dual.hpp), by every route, against the ostringstream rendering.
#include "fmt_dual.hpp"

namespace fmtv
{
bool exc_real_pack12(const std::vector<Val>& v, std::string& out)
{
    return with_real_pack12(v, [&](auto&&... a) { out = exc_real(VFWD(a)...); });
}
} // namespace fmtv

// harness/opt_driver.cpp — implementation side of the parser cluster (C01-C04, C11, C12, C14):
// builds a nitro::options::parser from the declaration in the case through the public API, sets the
// environment, calls parse(argc, argv) once per argument vector ON THE SAME OBJECT and reads everything
// the arguments object offers.
//   case:  parse <decl> <env> <argv> [<argv> ...]
//   decl = allowed;greedy;opts;multis;toggles     (allowed: ~ = unlimited | n;  lists: . | e/e/..)
//   opt  = name:short:env:def:optional   multi = name:short:env:def(list|~):optional   toggle = name:short:env:def(int):rev
//   env  = . | name=value/name=value      argv = . | hex,hex,...
#include "common.hpp"
#include <nitro/options/parser.hpp>
#include <nitro/options/arguments.hpp>
#include <algorithm>
#include <memory>
#include <set>

using namespace vh;

struct odecl { std::string name, sh, env, def; bool has_sh, has_env, has_def, opt; };
struct mdecl { std::string name, sh, env; std::vector<std::string> def; bool has_sh, has_env, has_def, opt; };
struct tdecl { std::string name, sh, env; int def; bool has_sh, has_env, rev; };

static std::vector<std::string> entries(const std::string& w)
{
    if (w == ".") return {};
    return split_on(w, '/');
}

// the option object behind a declared name, found by re-requesting it (same kind, no description) from each group in turn:
// the group that does not hold it raises parser_error before touching anything
template <typename F>
static auto find_in_groups(nitro::options::parser& p, F f) -> decltype(&f(p.group()))
{
    try { return &f(p.group()); } catch (const nitro::options::parser_error&) {}
    try { return &f(p.group("g1", "a group")); } catch (const nitro::options::parser_error&) {}
    try { return &f(p.group("g2", "a group")); } catch (const nitro::options::parser_error&) {}
    return nullptr;
}

// what the option OBJECTS say must be what the arguments object says
static std::string objects_agree(const nitro::options::arguments& a, const std::vector<odecl>& os, const std::vector<mdecl>& ms,
                                 const std::vector<tdecl>& ts, nitro::options::parser& p)
{
    for (auto& o : os)
    {
        auto* x = find_in_groups(p, [&](nitro::options::group& g) -> nitro::options::option& { return g.option(o.name); });
        if (!x) return "option object not found";
        std::string va, vx; bool ha = true, hx = true;
        try { va = a.get(o.name); } catch (const nitro::except::exception&) { ha = false; }
        try { vx = x->get(); } catch (const nitro::except::exception&) { hx = false; }
        if (ha != hx || va != vx) return "option::get";
        if (x->has_non_default() != a.provided(o.name)) return "option::has_non_default";
    }
    for (auto& o : ms)
    {
        auto* x = find_in_groups(p, [&](nitro::options::group& g) -> nitro::options::multi_option& { return g.multi_option(o.name); });
        if (!x) return "multi_option object not found";
        if (x->get_all() != a.get_all(o.name) || x->count() != a.count(o.name)) return "multi_option::get_all";
        for (std::size_t k = 0; k < x->count(); k++) if (x->get(k) != a.get(o.name, k)) return "multi_option::get(i)";
        if (x->has_non_default() != a.provided(o.name)) return "multi_option::has_non_default";
    }
    for (auto& o : ts)
    {
        auto* x = find_in_groups(p, [&](nitro::options::group& g) -> nitro::options::toggle& { return g.toggle(o.name); });
        if (!x) return "toggle object not found";
        if (x->given() != a.given(o.name)) return "toggle::given";
        if (x->has_non_default() != a.provided(o.name)) return "toggle::has_non_default";
    }
    return "";
}

static std::string obs_ok(const nitro::options::arguments& a, const std::vector<odecl>& os, const std::vector<mdecl>& ms,
                          const std::vector<tdecl>& ts, nitro::options::parser& p, bool typed)
{
    std::string r = "OK o=";
    if (os.empty()) r += ".";
    for (std::size_t i = 0; i < os.size(); i++)
    {
        if (i) r += "/";
        r += hex(os[i].name) + ":";
        // an absent optional option has no value: get() on it dereferences an empty optional (raises)
        std::string v;
        bool have = true;
        try { v = a.get(os[i].name); }
        catch (const nitro::except::exception&) { have = false; }
        r += have ? hex(v) : "~";
    }
    r += " m=";
    if (ms.empty()) r += ".";
    for (std::size_t i = 0; i < ms.size(); i++)
    {
        if (i) r += "/";
        auto all = a.get_all(ms[i].name);
        // count() and get(name, i) must agree with get_all()
        if (a.count(ms[i].name) != all.size()) return "OK-INCONSISTENT count";
        for (std::size_t k = 0; k < all.size(); k++) if (a.get(ms[i].name, k) != all[k]) return "OK-INCONSISTENT get(name,i)";
        r += hex(ms[i].name) + ":" + wire_strs(all);
    }
    r += " t=";
    if (ts.empty()) r += ".";
    for (std::size_t i = 0; i < ts.size(); i++)
    {
        if (i) r += "/";
        r += hex(ts[i].name) + ":" + std::to_string(a.given(ts[i].name));
    }
    r += " p=" + wire_strs(a.positionals());
    std::vector<std::string> prov;
    for (auto& o : os) if (a.provided(o.name)) prov.push_back(o.name);
    for (auto& o : ms) if (a.provided(o.name)) prov.push_back(o.name);
    for (auto& o : ts) if (a.provided(o.name)) prov.push_back(o.name);
    std::sort(prov.begin(), prov.end());
    r += " v=" + wire_strs(prov);
    // indices -n-1 .. n through get(int) and operator[]
    int n = static_cast<int>(a.positionals().size());
    r += " x=";
    for (int i = -n - 1; i <= n; i++)
    {
        if (i != -n - 1) r += ",";
        std::string g, b;
        bool okg = true, okb = true;
        try { g = a.get(i); } catch (const std::out_of_range&) { okg = false; }
        try { b = a[i]; } catch (const std::out_of_range&) { okb = false; }
        if (okg != okb || g != b) return "OK-INCONSISTENT operator[]";
        r += okg ? hex(g) : "!";
    }
    if (typed)
    {
        // typed access: as<long> of every single-valued option that has a value
        r += " l=";
        bool first = true;
        for (auto& o : os)
        {
            bool have = true;
            try { (void)a.get(o.name); } catch (const nitro::except::exception&) { have = false; }
            if (!have) continue;
            if (!first) r += ",";
            first = false;
            r += std::to_string(a.as<long>(o.name));
        }
        if (first) r += ".";
        // as<long>(name, i) of every multi-option value
        r += " L=";
        first = true;
        for (auto& o : ms)
        {
            for (std::size_t k = 0; k < a.count(o.name); k++)
            {
                if (!first) r += ",";
                first = false;
                r += std::to_string(a.as<long>(o.name, k));
            }
        }
        if (first) r += ".";
    }
    auto bad = objects_agree(a, os, ms, ts, p);
    if (!bad.empty()) return "OK-INCONSISTENT " + bad;
    return r;
}

struct decl_t
{
    std::vector<odecl> os;
    std::vector<mdecl> ms;
    std::vector<tdecl> ts;
    std::string allowed, greedy;
    bool ok = false;
};

static decl_t read_decl(const std::string& word)
{
    decl_t d;
    auto df = split_on(word, ';');
    if (df.size() != 5) return d;
    d.allowed = df[0];
    d.greedy = df[1];
    for (auto& e : entries(df[2]))
    {
        auto f = split_on(e, ':');
        odecl o;
        o.name = unhex(f[0]); o.has_sh = f[1] != "~"; o.sh = o.has_sh ? unhex(f[1]) : ""; o.has_env = f[2] != "~"; o.env = o.has_env ? unhex(f[2]) : "";
        o.has_def = f[3] != "~"; o.def = o.has_def ? unhex(f[3]) : ""; o.opt = f[4] == "1";
        d.os.push_back(o);
    }
    for (auto& e : entries(df[3]))
    {
        auto f = split_on(e, ':');
        mdecl o;
        o.name = unhex(f[0]); o.has_sh = f[1] != "~"; o.sh = o.has_sh ? unhex(f[1]) : ""; o.has_env = f[2] != "~"; o.env = o.has_env ? unhex(f[2]) : "";
        o.has_def = f[3] != "~"; if (o.has_def) o.def = unwire_strs(f[3]); o.opt = f[4] == "1";
        d.ms.push_back(o);
    }
    for (auto& e : entries(df[4]))
    {
        auto f = split_on(e, ':');
        tdecl o;
        o.name = unhex(f[0]); o.has_sh = f[1] != "~"; o.sh = o.has_sh ? unhex(f[1]) : ""; o.has_env = f[2] != "~"; o.env = o.has_env ? unhex(f[2]) : "";
        o.def = std::atoi(f[3].c_str()); o.rev = f[4] == "1";
        d.ts.push_back(o);
    }
    d.ok = true;
    return d;
}

// declares on p everything of d that `have` does not contain yet (by long name)
// the k-th declaration (counted over all kinds) goes to the default group when k % 3 == 0 and to the named group "g1"/"g2"
// otherwise: grouping must not influence parsing
static nitro::options::group& group_for(nitro::options::parser& p, std::size_t k)
{
    if (k % 3 == 0) return p.group();
    return p.group(k % 3 == 1 ? "g1" : "g2", "a group");
}

// Declaration ORDER must not influence parsing: the order in which the three kinds and the entries of each kind are declared is
// derived from a hash of the declaration itself (deterministic per case, different across cases).
// references kept by the caller (as a program keeps the option&/toggle& it got when declaring): later attribute changes go through them
struct handles_t
{
    std::map<std::string, nitro::options::option*> o;
    std::map<std::string, nitro::options::multi_option*> m;
    std::map<std::string, nitro::options::toggle*> t;
};
static handles_t* g_handles = nullptr;

// setter calls that the declaration rules must REJECT (parser_error), made right after a declaration and ignored by the caller as
// a program with a try/catch around its set-up would: the entry must be exactly as before.  An attempt that is accepted is
// reported (the model never prints this), one that is rejected must leave no trace (the parse results tell).
template <typename Opt>
static std::string rejected_setter_attempts(Opt& x, bool has_sh, const std::string& sh, bool has_env, const std::string& env)
{
    auto must_raise = [&](const char* what, auto call) -> std::string {
        try { call(); }
        catch (const nitro::options::parser_error&) { return ""; }
        return std::string("SETTER-ACCEPTED ") + what;
    };
    std::string r;
    if (has_env) { r = must_raise("env(other)", [&] { x.env(env + "_OTHER"); }); if (!r.empty()) return r; }
    if (has_sh) { r = must_raise("short_name(other)", [&] { x.short_name(sh == "q" ? "w" : "q"); }); if (!r.empty()) return r; }
    r = must_raise("short_name(\"\")", [&] { x.short_name(""); }); if (!r.empty()) return r;
    r = must_raise("short_name(\"ab\")", [&] { x.short_name("ab"); }); if (!r.empty()) return r;
    r = must_raise("metavar(\"\")", [&] { x.metavar(""); });
    return r;
}
static std::string g_setter_report;

static void declare_into(nitro::options::parser& p, const decl_t& d, std::set<std::string>& have)
{
    std::size_t k = have.size();
    std::size_t h = 1469598103934665603ull;
    for (auto& o : d.os) for (unsigned char c : o.name) h = (h ^ c) * 1099511628211ull;
    for (auto& o : d.ms) for (unsigned char c : o.name) h = (h ^ c) * 1099511628211ull;
    for (auto& o : d.ts) for (unsigned char c : o.name) h = (h ^ c) * 1099511628211ull;
    auto decl_o = [&](const odecl& o) {
        if (!have.insert(o.name).second) return;
        auto& x = group_for(p, k++).option(o.name, "d");
        if (g_handles) g_handles->o[o.name] = &x;
        // fluent style for every other declaration: each setter is applied to what the previous one RETURNED
        bool fluent = ((h >> 17) ^ o.name.size()) & 1;
        auto* c = &x;
        if (o.has_sh) { auto& r = c->short_name(o.sh); if (fluent) c = &r; }
        if (o.has_env) { auto& r = c->env(o.env); if (fluent) c = &r; }
        if (o.has_def) { auto& r = c->default_value(o.def); if (fluent) c = &r; }
        if (o.opt) c->optional();
        if (g_setter_report.empty()) g_setter_report = rejected_setter_attempts(x, o.has_sh, o.sh, o.has_env, o.env);
    };
    auto decl_m = [&](const mdecl& o) {
        if (!have.insert(o.name).second) return;
        auto& x = group_for(p, k++).multi_option(o.name, "d");
        if (g_handles) g_handles->m[o.name] = &x;
        bool fluent = ((h >> 19) ^ o.name.size()) & 1;
        auto* c = &x;
        if (o.has_sh) { auto& r = c->short_name(o.sh); if (fluent) c = &r; }
        if (o.has_env) { auto& r = c->env(o.env); if (fluent) c = &r; }
        if (o.has_def) { auto& r = c->default_value(o.def); if (fluent) c = &r; }
        if (o.opt) c->optional();
        if (g_setter_report.empty()) g_setter_report = rejected_setter_attempts(x, o.has_sh, o.sh, o.has_env, o.env);
    };
    auto decl_t_ = [&](const tdecl& o) {
        if (!have.insert(o.name).second) return;
        auto& x = group_for(p, k++).toggle(o.name, "d");
        if (g_handles) g_handles->t[o.name] = &x;
        bool fluent = ((h >> 23) ^ o.name.size()) & 1;
        auto* c = &x;
        if (o.has_sh) { auto& r = c->short_name(o.sh); if (fluent) c = &r; }
        if (o.has_env) { auto& r = c->env(o.env); if (fluent) c = &r; }
        // both overloads of default_value: bool for 0/1 in every other declaration, int otherwise
        if ((o.def == 0 || o.def == 1) && (((h >> 11) ^ o.name.size()) & 1)) { auto& r = c->default_value(o.def == 1); if (fluent) c = &r; }
        else { auto& r = c->default_value(o.def); if (fluent) c = &r; }
        if (o.rev) c->allow_reverse();
        if (g_setter_report.empty()) g_setter_report = rejected_setter_attempts(x, o.has_sh, o.sh, o.has_env, o.env);
    };
    auto all_o = [&] { std::size_t n = d.os.size(); for (std::size_t i = 0; i < n; i++) decl_o(d.os[(i + h % (n ? n : 1)) % n]); };
    auto all_m = [&] { std::size_t n = d.ms.size(); for (std::size_t i = 0; i < n; i++) decl_m(d.ms[(n - 1 - i + (h / 7) % (n ? n : 1)) % n]); };
    auto all_t = [&] { std::size_t n = d.ts.size(); for (std::size_t i = 0; i < n; i++) decl_t_(d.ts[(i + (h / 13) % (n ? n : 1)) % n]); };
    switch ((h / 5) % 3)
    {
    case 0: all_o(); all_m(); all_t(); break;
    case 1: all_t(); all_o(); all_m(); break;
    default: all_m(); all_t(); all_o(); break;
    }
    if (d.allowed == "~") p.accept_positionals();
    else p.accept_positionals(static_cast<std::size_t>(std::strtoull(d.allowed.c_str(), nullptr, 10)));
    p.greedy_postionals(d.greedy == "1");
}

// u:<decl> — the same entries (plus possibly new ones) with changed attributes: every change is made through the handle kept
// from the original declaration, never by re-requesting the option from the parser
static bool update_through_handles(nitro::options::parser& p, const decl_t& cur, const decl_t& nd, std::set<std::string>& have, handles_t& h)
{
    for (auto& n : nd.os)
        for (auto& c : cur.os)
            if (c.name == n.name)
            {
                auto it = h.o.find(n.name);
                if (it == h.o.end()) return false;
                auto& x = *it->second;
                if (n.has_sh && !c.has_sh) x.short_name(n.sh);
                if (n.has_env && (!c.has_env || c.env != n.env)) x.env(n.env);
                if (n.has_def && (!c.has_def || c.def != n.def)) x.default_value(n.def);
                if (n.opt && !c.opt) x.optional();
            }
    for (auto& n : nd.ms)
        for (auto& c : cur.ms)
            if (c.name == n.name)
            {
                auto it = h.m.find(n.name);
                if (it == h.m.end()) return false;
                auto& x = *it->second;
                if (n.has_sh && !c.has_sh) x.short_name(n.sh);
                if (n.has_env && (!c.has_env || c.env != n.env)) x.env(n.env);
                if (n.has_def && (!c.has_def || c.def != n.def)) x.default_value(n.def);
                if (n.opt && !c.opt) x.optional();
            }
    for (auto& n : nd.ts)
        for (auto& c : cur.ts)
            if (c.name == n.name)
            {
                auto it = h.t.find(n.name);
                if (it == h.t.end()) return false;
                auto& x = *it->second;
                if (n.has_sh && !c.has_sh) x.short_name(n.sh);
                if (n.has_env && (!c.has_env || c.env != n.env)) x.env(n.env);
                if (n.def != c.def) x.default_value(n.def);
                if (n.rev && !c.rev) x.allow_reverse();
            }
    declare_into(p, nd, have);      // entries that are new in nd
    return true;
}

static void apply_env(const decl_t& d, const std::string& envword, std::vector<std::string>& set_names)
{
    for (auto& n : set_names) unsetenv(n.c_str());
    set_names.clear();
    for (auto& o : d.os) if (o.has_env) unsetenv(o.env.c_str());
    for (auto& o : d.ms) if (o.has_env) unsetenv(o.env.c_str());
    for (auto& o : d.ts) if (o.has_env) unsetenv(o.env.c_str());
    for (auto& e : entries(envword))
    {
        auto f = split_on(e, '=');
        setenv(unhex(f[0]).c_str(), unhex(f[1]).c_str(), 1);
        set_names.push_back(unhex(f[0]));
    }
}

// both overloads of parse must agree: (argc, argv) against a vector of unchecked user_input, and — when every token can be
// constructed with the VALIDATING constructor — against a vector of validated user_input as well
template <typename One>
static std::string parse_all_overloads(nitro::options::parser& q, const std::vector<std::string>& args, One observe)
{
    std::vector<const char*> argv;
    argv.push_back("prog");
    for (auto& s : args) argv.push_back(s.c_str());
    std::string r1 = observe([&] { return q.parse(static_cast<int>(argv.size()), argv.data()); });
    std::string r2 = observe([&] {
        std::vector<nitro::options::user_input> v;
        for (auto& s : args) v.emplace_back(s, nitro::options::user_input::unchecked_t());
        return q.parse(v);
    });
    if (r1 != r2) return "OVERLOADS-DIFFER argv=" + r1 + " vector=" + r2;
    std::vector<nitro::options::user_input> checked;
    bool all = true;
    for (auto& s : args)
    {
        try { checked.emplace_back(s); }
        catch (const nitro::options::parsing_error&) { all = false; break; }
    }
    if (all)
    {
        std::string r3 = observe([&] { return q.parse(checked); });
        if (r1 != r3) return "OVERLOADS-DIFFER argv=" + r1 + " validated-vector=" + r3;
    }
    return r1;
}

// a result object kept by the caller must keep the positionals it reported, whatever the parser does afterwards (they are the
// result's own copy); options and toggles are read through the parser's objects by design and are not looked at here
struct kept_result_t
{
    std::unique_ptr<nitro::options::arguments> a;
    std::vector<std::string> pos;
    bool enabled = false;
    std::string changed;
    void check()
    {
        if (a && changed.empty() && a->positionals() != pos) changed = "EARLIER-RESULT-CHANGED positionals";
    }
    void keep(const nitro::options::arguments& r)
    {
        check();
        a = std::make_unique<nitro::options::arguments>(r);
        pos = r.positionals();
    }
    void reset() { a.reset(); pos.clear(); changed.clear(); enabled = false; }
};
static kept_result_t g_kept;

static std::string one_parse(nitro::options::parser& q, const decl_t& d, const std::vector<std::string>& args)
{
    return parse_all_overloads(q, args, [&](auto call) -> std::string {
        try
        {
            auto a = call();
            if (g_kept.enabled) g_kept.keep(a);
            return obs_ok(a, d.os, d.ms, d.ts, q, false);
        }
        catch (const nitro::options::parsing_error&) { return "USER"; }
        catch (const nitro::options::parser_error&) { return "DEV"; }
        catch (const std::exception& e) { return std::string("OTHER(") + typeid(e).name() + ")"; }
    });
}

// steps <decl> <env> step...   step = a:<argv> (parse on the long-lived object, then on a fresh identical parser)
//                                     | e:<env> (change the environment) | d:<decl> (declare more: a superset of the current one)
static std::string run_steps(const std::vector<std::string>& w)
{
    decl_t cur = read_decl(w[1]);
    if (!cur.ok) return "BADCASE";
    std::vector<std::string> set_names;
    std::string envword = w[2];
    apply_env(cur, envword, set_names);
    std::string out;
    try
    {
        auto p = std::make_unique<nitro::options::parser>("app", "about");
        std::set<std::string> have;
        handles_t handles;
        struct handles_scope { handles_scope(handles_t* h) { g_handles = h; } ~handles_scope() { g_handles = nullptr; } } scope(&handles);
        declare_into(*p, cur, have);
        bool first = true;
        for (std::size_t k = 3; k < w.size(); k++)
        {
            const std::string& st = w[k];
            if (st == "mc")
            {
                // move-construct the parser into a new object and destroy the old one
                auto q = std::make_unique<nitro::options::parser>(std::move(*p));
                p = std::move(q);
                g_kept.check();
                continue;
            }
            if (st.size() < 2 || st[1] != ':') return "BADCASE";
            std::string arg = st.substr(2);
            if (st[0] == 'e') { envword = arg; apply_env(cur, envword, set_names); }
            else if (st[0] == 'd')
            {
                decl_t nd = read_decl(arg);
                if (!nd.ok) return "BADCASE";
                declare_into(*p, nd, have);
                cur = nd;
                apply_env(cur, envword, set_names);
            }
            else if (st[0] == 'u')
            {
                decl_t nd = read_decl(arg);
                if (!nd.ok) return "BADCASE";
                if (!update_through_handles(*p, cur, nd, have, handles)) return "BADCASE";
                cur = nd;
                apply_env(cur, envword, set_names);
            }
            else if (st[0] == 'M')
            {
                // move-ASSIGN another, separately declared parser into the long-lived object
                decl_t nd = read_decl(arg);
                if (!nd.ok) return "BADCASE";
                {
                    nitro::options::parser other("app", "about");
                    std::set<std::string> h2;
                    handles = handles_t();
                    declare_into(other, nd, h2);
                    *p = std::move(other);
                    have = h2;
                }
                cur = nd;
                apply_env(cur, envword, set_names);
            }
            else if (st[0] == 'a')
            {
                auto args = unwire_strs(arg);
                if (!first) out += " | ";
                first = false;
                g_kept.enabled = true;
                out += one_parse(*p, cur, args);
                g_kept.enabled = false;
                nitro::options::parser fresh("app", "about");
                std::set<std::string> none;
                g_handles = nullptr;
                declare_into(fresh, cur, none);
                g_handles = &handles;
                out += " # " + one_parse(fresh, cur, args);
            }
            else return "BADCASE";
        }
    }
    catch (const nitro::options::parser_error&) { out = "DECL-DEV"; }
    for (auto& n : set_names) unsetenv(n.c_str());
    if (!g_setter_report.empty()) { out = g_setter_report; g_setter_report.clear(); }
    g_kept.check();
    if (!g_kept.changed.empty()) out = g_kept.changed;
    g_kept.reset();
    return out;
}

static std::string run_case(const std::vector<std::string>& w)
{
    if (w.size() >= 4 && w[0] == "steps") return run_steps(w);
    if (w.size() == 2 && w[0] == "ctor")
    {
        // the validating constructor of user_input: raises the user-input error exactly for ill-formed tokens
        try { nitro::options::user_input u(unhex(w[1])); (void)u; return "CTOR-OK"; }
        catch (const nitro::options::parsing_error&) { return "USER"; }
        catch (const std::exception& e) { return std::string("OTHER(") + typeid(e).name() + ")"; }
    }
    if (w.size() < 4 || (w[0] != "parse" && w[0] != "parsel" && w[0] != "hist")) return "BADCASE";
    bool hist = w[0] == "hist";
    bool typed = w[0] == "parsel";
    auto df = split_on(w[1], ';');
    if (df.size() != 5) return "BADCASE";
    std::vector<odecl> os;
    std::vector<mdecl> ms;
    std::vector<tdecl> ts;
    for (auto& e : entries(df[2]))
    {
        auto f = split_on(e, ':');
        odecl o;
        o.name = unhex(f[0]); o.has_sh = f[1] != "~"; o.sh = o.has_sh ? unhex(f[1]) : ""; o.has_env = f[2] != "~"; o.env = o.has_env ? unhex(f[2]) : "";
        o.has_def = f[3] != "~"; o.def = o.has_def ? unhex(f[3]) : ""; o.opt = f[4] == "1";
        os.push_back(o);
    }
    for (auto& e : entries(df[3]))
    {
        auto f = split_on(e, ':');
        mdecl o;
        o.name = unhex(f[0]); o.has_sh = f[1] != "~"; o.sh = o.has_sh ? unhex(f[1]) : ""; o.has_env = f[2] != "~"; o.env = o.has_env ? unhex(f[2]) : "";
        o.has_def = f[3] != "~"; if (o.has_def) o.def = unwire_strs(f[3]); o.opt = f[4] == "1";
        ms.push_back(o);
    }
    for (auto& e : entries(df[4]))
    {
        auto f = split_on(e, ':');
        tdecl o;
        o.name = unhex(f[0]); o.has_sh = f[1] != "~"; o.sh = o.has_sh ? unhex(f[1]) : ""; o.has_env = f[2] != "~"; o.env = o.has_env ? unhex(f[2]) : "";
        o.def = std::atoi(f[3].c_str()); o.rev = f[4] == "1";
        ts.push_back(o);
    }
    // environment: every bound name is unset first, then the case's assignments are applied
    for (auto& o : os) if (o.has_env) unsetenv(o.env.c_str());
    for (auto& o : ms) if (o.has_env) unsetenv(o.env.c_str());
    for (auto& o : ts) if (o.has_env) unsetenv(o.env.c_str());
    std::vector<std::string> set_names;
    for (auto& e : entries(w[2]))
    {
        auto f = split_on(e, '=');
        setenv(unhex(f[0]).c_str(), unhex(f[1]).c_str(), 1);
        set_names.push_back(unhex(f[0]));
    }
    std::string out;
    try
    {
        decl_t dd = read_decl(w[1]);
        auto declare = [&](nitro::options::parser& p) {
            // odd-length case lines declare everything on the parser itself, the others spread the declarations over groups
            if (w[1].size() % 2 == 1)
            {
                std::set<std::string> none;
                declare_into(p, dd, none);
                return;
            }
        for (auto& o : os)
        {
            auto& x = p.option(o.name, "d");
            if (o.has_sh) x.short_name(o.sh);
            if (o.has_env) x.env(o.env);
            if (o.has_def) x.default_value(o.def);
            if (o.opt) x.optional();
        }
        for (auto& o : ms)
        {
            auto& x = p.multi_option(o.name, "d");
            if (o.has_sh) x.short_name(o.sh);
            if (o.has_env) x.env(o.env);
            if (o.has_def) x.default_value(o.def);
            if (o.opt) x.optional();
        }
        for (auto& o : ts)
        {
            auto& x = p.toggle(o.name, "d");
            if (o.has_sh) x.short_name(o.sh);
            if (o.has_env) x.env(o.env);
            x.default_value(o.def);
            if (o.rev) x.allow_reverse();
        }
        if (df[0] == "~") p.accept_positionals();
        else p.accept_positionals(static_cast<std::size_t>(std::strtoull(df[0].c_str(), nullptr, 10)));
        if (df[1] == "1") p.greedy_postionals();
        };
        auto one = [&](nitro::options::parser& q, const std::vector<std::string>& args) -> std::string {
            return parse_all_overloads(q, args, [&](auto call) -> std::string {
                try
                {
                    auto a = call();
                    return obs_ok(a, os, ms, ts, q, typed);
                }
                catch (const nitro::options::parsing_error&) { return "USER"; }
                catch (const nitro::options::parser_error&) { return "DEV"; }
                catch (const std::exception& e) { return std::string("OTHER(") + typeid(e).name() + ")"; }
            });
        };
        nitro::options::parser p("app", "about");
        declare(p);

        for (std::size_t k = 3; k < w.size(); k++)
        {
            auto args = unwire_strs(w[k]);
            if (k > 3) out += " | ";
            out += one(p, args);
            if (hist)
            {
                // the same vector on a freshly built identical parser
                nitro::options::parser fresh("app", "about");
                declare(fresh);
                out += " # " + one(fresh, args);
            }
        }
    }
    catch (const nitro::options::parser_error&) { out = "DECL-DEV"; }
    for (auto& n : set_names) unsetenv(n.c_str());
    if (!g_setter_report.empty()) { out = g_setter_report; g_setter_report.clear(); }
    return out;
}
int main(int argc, char** argv) { return vh::driver_main(argc, argv, run_case); }

// harness/usage_driver.cpp — implementation side of the usage-text cluster (C15):
//   nitro::options::parser::usage(std::ostream&) and nitro::io::terminal::format_padded, through the public API only.
//
// case "U app about defgroup pos posname prior groups opt*"      (strings hex, "-" = empty)
//   groups : "." or comma separated  name:descr           (named groups in creation order)
//   opt    : kind:group:name:short:descr:env:metavar:default:flag:rank      (in declaration order)
//            kind o|m|t; group 0 = default group, i = i-th named group; short "-" or one byte;
//            default  o: n | s<hex>     m: n | l<wire list>     t: 0|1
//            flag     o,m: optional()   t: allow_reverse()
//            rank     position of the toggle object among the LONG toggles in address order, "-" otherwise
//   pos    : 0 | 1 (accept_positionals()) | a<k> (accept_positionals(k)), optionally followed by ":<hist>".  hist is a
//            string over e|g|f: parse() calls made on the SAME parser object before the first usage() and again between
//            the usage() calls: e = empty argument vector, g = a vector giving every option/toggle declared so far and
//            positionals, f = a vector that fails (exception caught), c = the parser is move-CONSTRUCTED into a new object
//            (the old one destroyed), a = it is move-ASSIGNED into another, already used parser object.  The usage text
//            must not depend on any of them.  x = a failing parse() with usage() called INSIDE the exception handler and again
//            after it (both texts must agree), y = greedy_postionals().
//   pos may carry a fourth part ":<style>" (letters D P G C T B X): how the same declaration is written down, see run_usage
//   a toggle default i<k> goes through default_value(int) instead of default_value(bool); an opt of kind k (K) applies its
//   setters through the reference KEPT from the first request (no new request)
//   groups : an entry "name:descr:L" is a group created LATE (together with the late options)
//   pos may carry a third part ":<fmt>": the FORMATTING STATE put on every target stream just before usage() is called
//            (after the prior content was written): '.'-separated items  f<hex byte> fill character, L|R|I adjustfield,
//            h|o|d basefield, s showbase, u uppercase, b boolalpha, p<n> precision, e exceptions(goodbit), w<n> a pending
//            field width.  None of it may change the text.  (One more usage() call goes to a stream in its default state.)
//   an opt of kind r (R) RE-REQUESTS an already declared option (same name, kind, group) with another description and applies
//   the setters of its word to the returned object: short/env/metavar "-" = not set, default n = not set, flag 1 = optional()/allow_reverse()
//   an opt whose kind letter is upper case (O|M|T|R) is declared LATE: after a first usage() call has already been made
//   observation  "T <hex text>"  when a fresh stringstream, a stringstream holding `prior`, an ostream over a
//   non-seekable streambuf (tellp() == -1) and std::cout (rdbuf swapped, non-seekable) all received the same text,
//   otherwise "STREAMS-DIFFER <fresh> <prior> <nonseekable> <cout>"; "USAGE-CHANGED <first> <second>" when two usage()
//   calls on fresh string streams (with the parse() calls of hist in between) differ.
//
// case "F indent lp mw text": format_padded(s, text, lp, mw) on a stream holding `indent` characters
//   (indent = -1: non-seekable stream);  observation "F <hex of what was appended>".
//
// parser::usage lists the long toggles in the order of the toggle objects' ADDRESSES (std::set<toggle*>).  To make that
// order an input of the case, the allocations made while a long toggle is being declared are served from a
// slot of a static arena chosen by the toggle's rank (replaced global operator new); the driver then checks through
// the references returned by the public API that the address order is the requested one.
#include "common.hpp"

#include <nitro/options/parser.hpp>

#include <nitro/io/terminal.hpp>

#include <algorithm>
#include <map>
#include <cstdlib>
#include <memory>
#include <new>

namespace arena
{
constexpr std::size_t SLOT = std::size_t(1) << 18;
constexpr int NSLOT = 24;
alignas(64) static char mem[SLOT * NSLOT];
static char* cur = nullptr;
static char* lim = nullptr;
static bool overflow = false;
inline bool inside(void* p)
{
    return static_cast<char*>(p) >= mem && static_cast<char*>(p) < mem + sizeof(mem);
}
inline void* take(std::size_t n)
{
    n = (n + 15) & ~std::size_t(15);
    if (n > static_cast<std::size_t>(lim - cur))
    {
        overflow = true;
        return nullptr;
    }
    void* r = cur;
    cur += n;
    return r;
}
struct use_slot
{
    explicit use_slot(int r)
    {
        if (r >= 0 && r < NSLOT)
        {
            cur = mem + SLOT * r;
            lim = cur + SLOT;
        }
        else if (r >= NSLOT)
            overflow = true;
    }
    ~use_slot()
    {
        cur = lim = nullptr;
    }
};
} // namespace arena

static void* vh_alloc(std::size_t n)
{
    if (arena::cur)
    {
        if (void* p = arena::take(n)) return p;
    }
    void* p = std::malloc(n ? n : 1);
    if (!p) throw std::bad_alloc();
    return p;
}
static void vh_free(void* p) noexcept
{
    if (!p || arena::inside(p)) return;
    std::free(p);
}
void* operator new(std::size_t n) { return vh_alloc(n); }
void* operator new[](std::size_t n) { return vh_alloc(n); }
void* operator new(std::size_t n, const std::nothrow_t&) noexcept { try { return vh_alloc(n); } catch (...) { return nullptr; } }
void* operator new[](std::size_t n, const std::nothrow_t&) noexcept { try { return vh_alloc(n); } catch (...) { return nullptr; } }
void operator delete(void* p) noexcept { vh_free(p); }
void operator delete[](void* p) noexcept { vh_free(p); }
void operator delete(void* p, std::size_t) noexcept { vh_free(p); }
void operator delete[](void* p, std::size_t) noexcept { vh_free(p); }
void operator delete(void* p, const std::nothrow_t&) noexcept { vh_free(p); }
void operator delete[](void* p, const std::nothrow_t&) noexcept { vh_free(p); }

// an output stream that cannot tell its position
struct sink_buf : std::streambuf
{
    std::string data;
    int_type overflow(int_type c) override
    {
        if (!traits_type::eq_int_type(c, traits_type::eof())) data.push_back(traits_type::to_char_type(c));
        return traits_type::not_eof(c);
    }
    std::streamsize xsputn(const char* s, std::streamsize n) override
    {
        data.append(s, static_cast<std::size_t>(n));
        return n;
    }
};

static std::string run_usage(const std::vector<std::string>& w)
{
    using namespace vh;
    namespace no = nitro::options;
    if (w.size() < 8) return "BADCASE";
    const std::string prior = unhex(w[6]);
    arena::overflow = false;
    std::string a, b, c, d;
    bool order_ok = true, handler_differs_any = false;
    try
    {
        std::string posfield = w[4], hist, fmt, style;
        {
            auto parts = split_on(posfield, ':');
            posfield = parts[0];
            if (parts.size() > 1) hist = parts[1];
            if (parts.size() > 2) fmt = parts[2];
            if (parts.size() > 3) style = parts[3];
            if (parts.size() > 4) return "BADCASE";
        }
        // style: HOW the same declaration is written down (the model ignores it):
        //   D rely on default arguments / default member values wherever the case's value equals the default
        //     (parser(), parser(app), group(name), option(name), no metavar("ARG"), no positional_metavar("args"), no default_value(false))
        //   P declare the default group's options through parser::option/multi_option/toggle instead of parser::group()
        //   G fetch a named group again by name (with another description) for every declaration instead of keeping the reference
        //   C apply the setters as one fluent chain on what each setter returns
        //   T set metavar and default twice (a longer temporary value first), env and short name twice with the same value
        //   X after every declaration make setter calls that must be rejected (metavar(""), short_name("")/("ab")/(another letter),
        //     env(another name)) and ignore the parser_error
        //   B afterwards call the public pieces directly through the kept references (base::format, format_name, format_synopsis,
        //     format_value, format_default, group::usage): every option block and every group section must occur in the text
        auto has = [&](char ch) { return style.find(ch) != std::string::npos; };
        const bool chain = has('C'), twice = has('T'), defaults = has('D');
        // the parser lives on the heap so that it can be moved into another object (hist letters c and a)
        const std::string app = unhex(w[1]), about = unhex(w[2]), defname = unhex(w[3]);
        std::unique_ptr<no::parser> pp;
        if (defaults && about.empty() && defname == "arguments" && app == "main")
            pp = std::make_unique<no::parser>();
        else if (defaults && about.empty() && defname == "arguments")
            pp = std::make_unique<no::parser>(app);
        else if (defaults && defname == "arguments")
            pp = std::make_unique<no::parser>(app, about);
        else
            pp = std::make_unique<no::parser>(app, about, defname);
        // the formatting state of a target stream
        bool badfmt = false;
        auto apply_fmt = [&](std::ostream& os) {
            if (fmt.empty()) return;
            for (auto& item : split_on(fmt, '.'))
            {
                if (item.empty()) continue;
                const std::string arg = item.substr(1);
                switch (item[0])
                {
                case 'f': os.fill(unhex(arg).empty() ? ' ' : unhex(arg)[0]); break;
                case 'L': os.setf(std::ios::left, std::ios::adjustfield); break;
                case 'R': os.setf(std::ios::right, std::ios::adjustfield); break;
                case 'I': os.setf(std::ios::internal, std::ios::adjustfield); break;
                case 'h': os.setf(std::ios::hex, std::ios::basefield); break;
                case 'o': os.setf(std::ios::oct, std::ios::basefield); break;
                case 'd': os.setf(std::ios::dec, std::ios::basefield); break;
                case 's': os.setf(std::ios::showbase); break;
                case 'u': os.setf(std::ios::uppercase); break;
                case 'b': os.setf(std::ios::boolalpha); break;
                case 'p': os.precision(std::stoi(arg)); break;
                case 'e': os.exceptions(std::ios::goodbit); break;
                case 'w': os.width(std::stoi(arg)); break;
                default: badfmt = true;
                }
            }
        };
        std::size_t pos_amount = 0;
        if (posfield == "1")
        {
            pp->accept_positionals();
            pos_amount = 2;
        }
        else if (posfield.size() > 1 && posfield[0] == 'a')
        {
            pos_amount = std::stoul(posfield.substr(1));
            pp->accept_positionals(pos_amount);
        }
        else if (posfield != "0")
            return "BADCASE";
        if (!(defaults && unhex(w[5]) == "args")) pp->positional_metavar(unhex(w[5]));
        // groups[0] is the default group, groups[i] the i-th listed named group; a group marked ":L" is created
        // late (together with the late options, i.e. after parse()/move/usage() have already happened)
        std::vector<no::group*> groups;
        groups.push_back(&pp->group());
        std::vector<std::vector<std::string>> gdefs;
        if (w[7] != ".")
            for (auto& g : split_on(w[7], ','))
            {
                auto f = split_on(g, ':');
                if (f.size() != 2 && !(f.size() == 3 && f[2] == "L")) return "BADCASE";
                gdefs.push_back(f);
                groups.push_back(nullptr);
            }
        auto create_groups = [&](bool late) {
            for (std::size_t i = 0; i < gdefs.size(); i++)
                if ((gdefs[i].size() == 3) == late)
                {
                    const std::string gname = unhex(gdefs[i][0]), gdescr = unhex(gdefs[i][1]);
                    groups[i + 1] = (defaults && gdescr.empty()) ? &pp->group(gname) : &pp->group(gname, gdescr);
                }
        };
        create_groups(false);
        bool bad = false, any_late = false;
        auto group_of = [&](std::size_t gi) -> no::group& {
            if (has('G'))
            {
                // asking for an existing group again returns that group; the description given now is ignored
                no::group& again = gi == 0 ? pp->group() : pp->group(unhex(gdefs[gi - 1][0]), "a description given with a later request");
                if (&again != groups[gi]) bad = true;
                return again;
            }
            return *groups[gi];
        };
        auto request_option = [&](std::size_t gi, const std::string& name, const std::string& descr) -> no::option& {
            const bool one = defaults && descr.empty();
            if (gi == 0 && has('P')) return one ? pp->option(name) : pp->option(name, descr);
            no::group& g = group_of(gi);
            return one ? g.option(name) : g.option(name, descr);
        };
        auto request_multi = [&](std::size_t gi, const std::string& name, const std::string& descr) -> no::multi_option& {
            const bool one = defaults && descr.empty();
            if (gi == 0 && has('P')) return one ? pp->multi_option(name) : pp->multi_option(name, descr);
            no::group& g = group_of(gi);
            return one ? g.multi_option(name) : g.multi_option(name, descr);
        };
        auto request_toggle = [&](std::size_t gi, const std::string& name, const std::string& descr) -> no::toggle& {
            const bool one = defaults && descr.empty();
            if (gi == 0 && has('P')) return one ? pp->toggle(name) : pp->toggle(name, descr);
            no::group& g = group_of(gi);
            return one ? g.toggle(name) : g.toggle(name, descr);
        };
        std::vector<std::pair<int, no::toggle*>> longs;          // (requested rank, object)
        std::vector<std::pair<char, std::string>> declared;      // (kind, name) of what is declared so far
        std::map<std::string, no::option*> kept_o;               // the references the declaration calls returned
        std::map<std::string, no::multi_option*> kept_m;
        std::map<std::string, no::toggle*> kept_t;
        // short name, env, metavar: the same for the three kinds.  `cur` follows what the setters return when chaining
        auto common_setters = [&](auto*& cur, const std::vector<std::string>& f, bool again, const std::string& env,
                                  const std::string& metavar) {
            if (f[3] != "-")
            {
                auto& r1 = cur->short_name(unhex(f[3]));
                if (chain) cur = &r1;
                if (twice) { auto& r2 = cur->short_name(unhex(f[3])); if (chain) cur = &r2; }
            }
            if (!env.empty())
            {
                auto& r1 = cur->env(env);
                if (chain) cur = &r1;
                if (twice) { auto& r2 = cur->env(env); if (chain) cur = &r2; }
            }
            const bool set_metavar = again ? !metavar.empty() : !(defaults && metavar == "ARG");
            if (set_metavar)
            {
                if (twice) { auto& r0 = cur->metavar("A-TEMPORARY-AND-LONGER-METAVAR"); if (chain) cur = &r0; }
                auto& r1 = cur->metavar(metavar);
                if (chain) cur = &r1;
            }
        };
        // style X: setter calls that the library REJECTS (parser_error), made on the declared object and ignored by the caller.
        // A rejected call must leave no trace in the usage text; a call that is not rejected is reported
        std::string not_rejected;
        auto rejected_attempts = [&](auto* o) {
            auto attempt = [&](const char* what, auto&& call) {
                try { call(); if (not_rejected.empty()) not_rejected = what; }
                catch (const no::parser_error&) {}
            };
            attempt("metavar-empty", [&] { o->metavar(""); });
            attempt("metavar-empty-from-temporary", [&] { o->metavar(std::string()); });
            attempt("short_name-empty", [&] { o->short_name(""); });
            attempt("short_name-two-bytes", [&] { o->short_name("ab"); });
            if (o->has_short_name())
                attempt("short_name-redefined", [&] { o->short_name(o->short_name() == "q" ? "r" : "q"); });
            if (o->has_env())
                attempt("env-redefined", [&] { o->env(o->env() + "_OTHER"); });
        };
        auto declare = [&](bool late) {
            for (std::size_t i = 8; i < w.size(); i++)
            {
                auto f = split_on(w[i], ':');
                if (f.size() != 10 || f[0].size() != 1) { bad = true; return; }
                const bool is_late = f[0][0] >= 'A' && f[0][0] <= 'Z';
                if (is_late) any_late = true;
                if (is_late != late) continue;
                char kind = static_cast<char>(is_late ? f[0][0] - 'A' + 'a' : f[0][0]);
                // kind r: RE-REQUEST an option that is already declared (same name, kind, group), with another description,
                // and apply the setters given in the word ("-"/n = none) to the object that is returned;
                // kind k: apply them through the reference KEPT from the first request instead
                const bool kept = kind == 'k';
                const bool again = kind == 'r' || kept;
                const std::string name = unhex(f[2]), descr = unhex(f[4]), env = unhex(f[5]), metavar = unhex(f[6]);
                if (again)
                {
                    kind = 0;
                    for (auto& kn : declared)
                        if (kn.second == name) kind = kn.first;
                    if (!kind) { bad = true; return; }
                }
                std::size_t gi = std::stoul(f[1]);
                if (gi >= groups.size() || !groups[gi]) { bad = true; return; }
                const bool flag = f[8] == "1";
                switch (kind)
                {
                case 'o':
                {
                    no::option* cur = kept ? kept_o.at(name) : &request_option(gi, name, descr);
                    if (!again) kept_o[name] = cur;
                    else if (cur != kept_o.at(name)) { bad = true; return; }
                    no::option* const object = cur;
                    common_setters(cur, f, again, env, metavar);
                    if (f[7][0] == 's')
                    {
                        // an lvalue that is changed after the call: the option must have taken a copy
                        std::string v = unhex(f[7].substr(1));
                        if (twice) { auto& r0 = cur->default_value(v + " and a longer temporary default"); if (chain) cur = &r0; }
                        auto& r1 = cur->default_value(v);
                        if (chain) cur = &r1;
                        v.assign(40, '#');
                    }
                    if (flag) { auto& r1 = cur->optional(); if (chain) cur = &r1; }
                    if (cur != object) { bad = true; return; }
                    if (has('X')) rejected_attempts(object);
                    break;
                }
                case 'm':
                {
                    no::multi_option* cur = kept ? kept_m.at(name) : &request_multi(gi, name, descr);
                    if (!again) kept_m[name] = cur;
                    else if (cur != kept_m.at(name)) { bad = true; return; }
                    no::multi_option* const object = cur;
                    common_setters(cur, f, again, env, metavar);
                    if (f[7][0] == 'l')
                    {
                        std::vector<std::string> v = unwire_strs(f[7].substr(1));
                        if (twice)
                        {
                            auto longer = v;
                            longer.push_back("one more temporary element");
                            auto& r0 = cur->default_value(longer);
                            if (chain) cur = &r0;
                        }
                        auto& r1 = cur->default_value(v);
                        if (chain) cur = &r1;
                        v.assign(3, "changed after the call");
                    }
                    if (flag) { auto& r1 = cur->optional(); if (chain) cur = &r1; }
                    if (cur != object) { bad = true; return; }
                    if (has('X')) rejected_attempts(object);
                    break;
                }
                case 't':
                {
                    int rank = f[9] == "-" ? -1 : std::stoi(f[9]);
                    no::toggle* cur;
                    if (kept)
                        cur = kept_t.at(name);
                    else
                    {
                        arena::use_slot slot(again ? -1 : rank);
                        cur = &request_toggle(gi, name, descr);
                    }
                    if (!again) kept_t[name] = cur;
                    else if (cur != kept_t.at(name)) { bad = true; return; }
                    no::toggle* const object = cur;
                    common_setters(cur, f, again, env, metavar);
                    // default: 0|1 through default_value(bool), i<k> through default_value(int), n = not set
                    if (f[7][0] == 'i')
                    {
                        if (twice) { auto& r0 = cur->default_value(f[7] == "i0" ? 5 : 0); if (chain) cur = &r0; }
                        auto& r1 = cur->default_value(std::stoi(f[7].substr(1)));
                        if (chain) cur = &r1;
                    }
                    else if (f[7] != "n" && !(defaults && !again && f[7] == "0"))
                    {
                        if (twice) { auto& r0 = cur->default_value(f[7] != "1"); if (chain) cur = &r0; }
                        auto& r1 = cur->default_value(f[7] == "1");
                        if (chain) cur = &r1;
                    }
                    if (flag) { auto& r1 = cur->allow_reverse(); if (chain) cur = &r1; }
                    if (cur != object) { bad = true; return; }   // a setter returned something else than its object
                    if (has('X')) rejected_attempts(object);
                    if (!again && rank >= 0) longs.emplace_back(rank, object);
                    break;
                }
                default:
                    bad = true;
                    return;
                }
                if (!again) declared.emplace_back(kind, name);
            }
        };
        // the parse() calls of hist, on this parser object; whatever they do or raise, usage() must not notice
        bool handler_differs = false;
        auto do_parses = [&]() {
            for (char h : hist)
            {
                std::vector<std::string> args{ "prog" };
                if (h == 'g')
                {
                    for (auto& kn : declared)
                    {
                        args.push_back("--" + kn.second);
                        if (kn.first != 't') args.push_back("value");
                    }
                    for (std::size_t k = 0; k < pos_amount && k < 2; k++) args.push_back("positional");
                }
                else if (h == 'f')
                    args.push_back("--no-such-option-was-declared-xyz");
                else if (h == 'c')
                {
                    // move-construct the parser into a new object and destroy the old one; the std::map nodes (groups,
                    // options) travel with it, so the group and toggle references stay valid
                    auto q = std::make_unique<no::parser>(std::move(*pp));
                    pp = std::move(q);
                    continue;
                }
                else if (h == 'a')
                {
                    // move-assign into another, already used parser object
                    auto q = std::make_unique<no::parser>("other", "another parser", "others");
                    q->group("zz-other", "x").toggle("other-toggle");
                    q->group("aa-other", "y").option("other-option");
                    q->accept_positionals(7);
                    *q = std::move(*pp);
                    pp = std::move(q);
                    continue;
                }
                else if (h == 'y')
                {
                    pp->greedy_postionals();   // a parsing mode, no part of the usage text
                    continue;
                }
                else if (h == 'x')
                {
                    // the usual place of a usage() call: inside the handler of the exception a failed parse() raised
                    const char* bad_argv[] = { "prog", "--no-such-option-was-declared-xyz" };
                    std::string in_handler, after_handler;
                    bool raised = false;
                    try { auto parsed = pp->parse(2, bad_argv); (void)parsed; }
                    catch (const std::exception&)
                    {
                        raised = true;
                        std::stringstream hs;
                        pp->usage(hs);
                        in_handler = hs.str();
                    }
                    std::stringstream as;
                    pp->usage(as);
                    after_handler = as.str();
                    if (raised && in_handler != after_handler) handler_differs = handler_differs_any = true;
                    continue;
                }
                else if (h != 'e')
                    continue;
                std::vector<const char*> argv;
                for (auto& a : args) argv.push_back(a.c_str());
                try { auto parsed = pp->parse(static_cast<int>(argv.size()), argv.data()); (void)parsed; }
                catch (const std::exception&) {}
            }
        };
        declare(false);
        if (bad) return "BADCASE";
        do_parses();
        if (any_late || std::any_of(gdefs.begin(), gdefs.end(), [](const auto& f) { return f.size() == 3; }))
        {
            // a usage() call made before the declaration is complete must not be remembered
            std::stringstream early;
            pp->usage(early);
            create_groups(true);
            declare(true);
            if (bad) return "BADCASE";
        }
        // the address order of the long toggles must be the requested one
        std::sort(longs.begin(), longs.end(),
                  [](const auto& x, const auto& y) { return std::less<no::toggle*>()(x.second, y.second); });
        for (std::size_t i = 0; i < longs.size(); i++)
            if (longs[i].first != static_cast<int>(i)) order_ok = false;

        {
            std::stringstream fresh;
            apply_fmt(fresh);
            std::ostream& returned = pp->usage(fresh);
            if (&returned != &fresh) return "USAGE-RETURNS-ANOTHER-STREAM";
            a = fresh.str();
        }
        if (badfmt || bad) return "BADCASE";
        if (!not_rejected.empty()) return "ATTEMPT-NOT-REJECTED " + not_rejected;
        if (handler_differs) return "USAGE-IN-HANDLER-DIFFERS";
        if (has('B'))
        {
            // the public pieces, called directly through the kept references on a stream in the same formatting state
            auto block_of = [&](const no::base& o) {
                std::stringstream bs, scratch;
                apply_fmt(bs);
                o.format(bs);
                (void)o.format_name(); (void)o.format_default(); (void)o.is_optional(); (void)o.metavar(); (void)o.env();
                (void)o.has_env(); (void)o.has_short_name(); (void)o.short_name(); (void)o.name();
                o.format_synopsis(scratch);
                o.format_value(scratch);
                return bs.str();
            };
            for (auto& kv : kept_o) if (a.find(block_of(*kv.second)) == std::string::npos) return "BLOCK-NOT-IN-USAGE " + hex(kv.first);
            for (auto& kv : kept_m) if (a.find(block_of(*kv.second)) == std::string::npos) return "BLOCK-NOT-IN-USAGE " + hex(kv.first);
            for (auto& kv : kept_t) if (a.find(block_of(*kv.second)) == std::string::npos) return "BLOCK-NOT-IN-USAGE " + hex(kv.first);
            for (auto* g : groups)
            {
                if (!g) continue;
                std::stringstream gs;
                apply_fmt(gs);
                const no::group& cg = *g;
                cg.usage(gs);
                (void)cg.name(); (void)cg.description();
                if (cg.empty() != gs.str().empty()) return "GROUP-EMPTY-BUT-PRINTED";
                if (a.find(gs.str()) == std::string::npos) return "GROUP-SECTION-NOT-IN-USAGE " + hex(cg.name());
            }
        }
        do_parses();
        {
            std::stringstream again;
            pp->usage(again);
            if (again.str() != a) return "USAGE-CHANGED " + hex(a) + " " + hex(again.str());
        }
        do_parses();
        {
            std::stringstream s;
            s << prior;
            apply_fmt(s);
            pp->usage(s);
            b = s.str();
            if (b.compare(0, prior.size(), prior) != 0) return "PRIOR-CONTENT-DAMAGED";
            b = b.substr(prior.size());
        }
        do_parses();
        {
            sink_buf sb;
            std::ostream os(&sb);
            if (os.tellp() != std::ostream::pos_type(-1)) return "DRIVER-SINK-IS-SEEKABLE";
            apply_fmt(os);
            pp->usage(os);
            c = sb.data;
        }
        {
            sink_buf sb;
            std::cout.flush();
            auto* old = std::cout.rdbuf(&sb);
            std::ios saved(nullptr);
            saved.copyfmt(std::cout);   // std::cout's own formatting state is restored afterwards
            apply_fmt(std::cout);
            try { pp->usage(); }
            catch (...) { std::cout.copyfmt(saved); std::cout.rdbuf(old); throw; }
            std::cout.flush();
            std::cout.copyfmt(saved);
            std::cout.rdbuf(old);
            d = sb.data;
        }
    }
    catch (const nitro::options::parser_error&) { return "DEV"; }
    catch (const nitro::options::parsing_error&) { return "USER"; }
    if (arena::overflow) return "ARENA-OVERFLOW";
    if (handler_differs_any) return "USAGE-IN-HANDLER-DIFFERS";
    if (!order_ok) return "ORDER-NOT-FORCED";
    if (a == b && a == c && a == d) return "T " + hex(a);
    return "STREAMS-DIFFER " + hex(a) + " " + hex(b) + " " + hex(c) + " " + hex(d);
}

static std::string run_fp(const std::vector<std::string>& w)
{
    using namespace vh;
    if (w.size() != 5) return "BADCASE";
    long indent = std::stol(w[1]);
    int lp = std::stoi(w[2]), mw = std::stoi(w[3]);
    const std::string text = unhex(w[4]);
    if (indent < 0)
    {
        sink_buf sb;
        std::ostream os(&sb);
        std::ostream& ret = (lp == 0 && mw == 80) ? nitro::io::terminal::format_padded(os, text)
                            : (mw == 80)          ? nitro::io::terminal::format_padded(os, text, lp)
                                                  : nitro::io::terminal::format_padded(os, text, lp, mw);
        if (&ret != &os) return "RETURNS-ANOTHER-STREAM";
        if (os.width() != 0) return "WIDTH-LEFT-SET";
        return "F " + hex(sb.data);
    }
    std::stringstream s;
    const std::string pre(static_cast<std::size_t>(indent), '#');
    s << pre;
    std::ostream& ret = (lp == 0 && mw == 80) ? nitro::io::terminal::format_padded(s, text)
                        : (mw == 80)          ? nitro::io::terminal::format_padded(s, text, lp)
                                              : nitro::io::terminal::format_padded(s, text, lp, mw);
    if (&ret != &s) return "RETURNS-ANOTHER-STREAM";
    if (s.width() != 0) return "WIDTH-LEFT-SET";
    std::string r = s.str();
    if (r.compare(0, pre.size(), pre) != 0) return "PRIOR-CONTENT-DAMAGED";
    return "F " + hex(r.substr(pre.size()));
}

static std::string run_case(const std::vector<std::string>& w)
{
    if (!w.empty() && w[0] == "U") return run_usage(w);
    if (!w.empty() && w[0] == "F") return run_fp(w);
    return "BADCASE";
}
int main(int argc, char** argv) { return vh::driver_main(argc, argv, run_case); }

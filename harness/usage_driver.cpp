// harness/usage_driver.cpp — implementation side of the usage-text cluster (C15):
//   nitro::options::parser::usage(std::ostream&) and nitro::io::terminal::format_padded, through the public API only.
//
// case "U app about defgroup pos posname prior groups opt*"      (strings hex, "-" = empty)
//   groups : "." or comma separated  name:descr           (named groups in creation order)
//   opt    : kind:group:name:short:descr:env:metavar:default:flag:rank      (in declaration order)
//            kind o|m|t; group 0 = default group, i = i-th named group; short "-" or one byte;
//            default  o: n | s<hex>     m: n | l<wire list>     t: 0|1
//            flag     o,m: optional()   t: allow_reverse()
//            rank     position of the toggle object among the LONG toggles in address order, "-" otherwise
//   pos    : 0 | 1 (accept_positionals()) | a<k> (accept_positionals(k)), optionally followed by ":<hist>".  hist is a
//            string over e|g|f: parse() calls made on the SAME parser object before the first usage() and again between
//            the usage() calls: e = empty argument vector, g = a vector giving every option/toggle declared so far and
//            positionals, f = a vector that fails (exception caught), c = the parser is move-CONSTRUCTED into a new object
//            (the old one destroyed), a = it is move-ASSIGNED into another, already used parser object.  The usage text
//            must not depend on any of them.
//   groups : an entry "name:descr:L" is a group created LATE (together with the late options)
//   pos may carry a third part ":<fmt>": the FORMATTING STATE put on every target stream just before usage() is called
//            (after the prior content was written): '.'-separated items  f<hex byte> fill character, L|R|I adjustfield,
//            h|o|d basefield, s showbase, u uppercase, b boolalpha, p<n> precision, e exceptions(goodbit), w<n> a pending
//            field width.  None of it may change the text.  (One more usage() call goes to a stream in its default state.)
//   an opt of kind r (R) RE-REQUESTS an already declared option (same name, kind, group) with another description and applies
//   the setters of its word to the returned object: short/env/metavar "-" = not set, default n = not set, flag 1 = optional()/allow_reverse()
//   an opt whose kind letter is upper case (O|M|T|R) is declared LATE: after a first usage() call has already been made
//   observation  "T <hex text>"  when a fresh stringstream, a stringstream holding `prior`, an ostream over a
//   non-seekable streambuf (tellp() == -1) and std::cout (rdbuf swapped, non-seekable) all received the same text,
//   otherwise "STREAMS-DIFFER <fresh> <prior> <nonseekable> <cout>"; "USAGE-CHANGED <first> <second>" when two usage()
//   calls on fresh string streams (with the parse() calls of hist in between) differ.
//
// case "F indent lp mw text": format_padded(s, text, lp, mw) on a stream holding `indent` characters
//   (indent = -1: non-seekable stream);  observation "F <hex of what was appended>".
//
// parser::usage lists the long toggles in the order of the toggle objects' ADDRESSES (std::set<toggle*>).  To make that
// order an input of the case, the allocations made while a long toggle is being declared are served from a
// slot of a static arena chosen by the toggle's rank (replaced global operator new); the driver then checks through
// the references returned by the public API that the address order is the requested one.
#include "common.hpp"

#include <nitro/options/parser.hpp>

#include <nitro/io/terminal.hpp>

#include <algorithm>
#include <cstdlib>
#include <memory>
#include <new>

namespace arena
{
constexpr std::size_t SLOT = std::size_t(1) << 18;
constexpr int NSLOT = 24;
alignas(64) static char mem[SLOT * NSLOT];
static char* cur = nullptr;
static char* lim = nullptr;
static bool overflow = false;
inline bool inside(void* p)
{
    return static_cast<char*>(p) >= mem && static_cast<char*>(p) < mem + sizeof(mem);
}
inline void* take(std::size_t n)
{
    n = (n + 15) & ~std::size_t(15);
    if (n > static_cast<std::size_t>(lim - cur))
    {
        overflow = true;
        return nullptr;
    }
    void* r = cur;
    cur += n;
    return r;
}
struct use_slot
{
    explicit use_slot(int r)
    {
        if (r >= 0 && r < NSLOT)
        {
            cur = mem + SLOT * r;
            lim = cur + SLOT;
        }
        else if (r >= NSLOT)
            overflow = true;
    }
    ~use_slot()
    {
        cur = lim = nullptr;
    }
};
} // namespace arena

static void* vh_alloc(std::size_t n)
{
    if (arena::cur)
    {
        if (void* p = arena::take(n)) return p;
    }
    void* p = std::malloc(n ? n : 1);
    if (!p) throw std::bad_alloc();
    return p;
}
static void vh_free(void* p) noexcept
{
    if (!p || arena::inside(p)) return;
    std::free(p);
}
void* operator new(std::size_t n) { return vh_alloc(n); }
void* operator new[](std::size_t n) { return vh_alloc(n); }
void* operator new(std::size_t n, const std::nothrow_t&) noexcept { try { return vh_alloc(n); } catch (...) { return nullptr; } }
void* operator new[](std::size_t n, const std::nothrow_t&) noexcept { try { return vh_alloc(n); } catch (...) { return nullptr; } }
void operator delete(void* p) noexcept { vh_free(p); }
void operator delete[](void* p) noexcept { vh_free(p); }
void operator delete(void* p, std::size_t) noexcept { vh_free(p); }
void operator delete[](void* p, std::size_t) noexcept { vh_free(p); }
void operator delete(void* p, const std::nothrow_t&) noexcept { vh_free(p); }
void operator delete[](void* p, const std::nothrow_t&) noexcept { vh_free(p); }

// an output stream that cannot tell its position
struct sink_buf : std::streambuf
{
    std::string data;
    int_type overflow(int_type c) override
    {
        if (!traits_type::eq_int_type(c, traits_type::eof())) data.push_back(traits_type::to_char_type(c));
        return traits_type::not_eof(c);
    }
    std::streamsize xsputn(const char* s, std::streamsize n) override
    {
        data.append(s, static_cast<std::size_t>(n));
        return n;
    }
};

static std::string run_usage(const std::vector<std::string>& w)
{
    using namespace vh;
    namespace no = nitro::options;
    if (w.size() < 8) return "BADCASE";
    const std::string prior = unhex(w[6]);
    arena::overflow = false;
    std::string a, b, c, d;
    bool order_ok = true;
    try
    {
        // the parser lives on the heap so that it can be moved into another object (hist letters c and a)
        auto pp = std::make_unique<no::parser>(unhex(w[1]), unhex(w[2]), unhex(w[3]));
        std::string posfield = w[4], hist, fmt;
        {
            auto parts = split_on(posfield, ':');
            posfield = parts[0];
            if (parts.size() > 1) hist = parts[1];
            if (parts.size() > 2) fmt = parts[2];
            if (parts.size() > 3) return "BADCASE";
        }
        // the formatting state of a target stream
        bool badfmt = false;
        auto apply_fmt = [&](std::ostream& os) {
            if (fmt.empty()) return;
            for (auto& item : split_on(fmt, '.'))
            {
                if (item.empty()) continue;
                const std::string arg = item.substr(1);
                switch (item[0])
                {
                case 'f': os.fill(unhex(arg).empty() ? ' ' : unhex(arg)[0]); break;
                case 'L': os.setf(std::ios::left, std::ios::adjustfield); break;
                case 'R': os.setf(std::ios::right, std::ios::adjustfield); break;
                case 'I': os.setf(std::ios::internal, std::ios::adjustfield); break;
                case 'h': os.setf(std::ios::hex, std::ios::basefield); break;
                case 'o': os.setf(std::ios::oct, std::ios::basefield); break;
                case 'd': os.setf(std::ios::dec, std::ios::basefield); break;
                case 's': os.setf(std::ios::showbase); break;
                case 'u': os.setf(std::ios::uppercase); break;
                case 'b': os.setf(std::ios::boolalpha); break;
                case 'p': os.precision(std::stoi(arg)); break;
                case 'e': os.exceptions(std::ios::goodbit); break;
                case 'w': os.width(std::stoi(arg)); break;
                default: badfmt = true;
                }
            }
        };
        std::size_t pos_amount = 0;
        if (posfield == "1")
        {
            pp->accept_positionals();
            pos_amount = 2;
        }
        else if (posfield.size() > 1 && posfield[0] == 'a')
        {
            pos_amount = std::stoul(posfield.substr(1));
            pp->accept_positionals(pos_amount);
        }
        else if (posfield != "0")
            return "BADCASE";
        pp->positional_metavar(unhex(w[5]));
        // groups[0] is the default group, groups[i] the i-th listed named group; a group marked ":L" is created
        // late (together with the late options, i.e. after parse()/move/usage() have already happened)
        std::vector<no::group*> groups;
        groups.push_back(&pp->group());
        std::vector<std::vector<std::string>> gdefs;
        if (w[7] != ".")
            for (auto& g : split_on(w[7], ','))
            {
                auto f = split_on(g, ':');
                if (f.size() != 2 && !(f.size() == 3 && f[2] == "L")) return "BADCASE";
                gdefs.push_back(f);
                groups.push_back(nullptr);
            }
        auto create_groups = [&](bool late) {
            for (std::size_t i = 0; i < gdefs.size(); i++)
                if ((gdefs[i].size() == 3) == late) groups[i + 1] = &pp->group(unhex(gdefs[i][0]), unhex(gdefs[i][1]));
        };
        create_groups(false);
        std::vector<std::pair<int, no::toggle*>> longs;          // (requested rank, object)
        std::vector<std::pair<char, std::string>> declared;      // (kind, name) of what is declared so far
        bool bad = false, any_late = false;
        auto declare = [&](bool late) {
            for (std::size_t i = 8; i < w.size(); i++)
            {
                auto f = split_on(w[i], ':');
                if (f.size() != 10 || f[0].size() != 1) { bad = true; return; }
                const bool is_late = f[0][0] >= 'A' && f[0][0] <= 'Z';
                if (is_late) any_late = true;
                if (is_late != late) continue;
                char kind = static_cast<char>(is_late ? f[0][0] - 'A' + 'a' : f[0][0]);
                // kind r: RE-REQUEST an option that is already declared (same name, kind, group), with another description,
                // and apply the setters given in the word ("-"/n = none) to the object that is returned
                const bool rerequest = kind == 'r';
                if (rerequest)
                {
                    kind = 0;
                    for (auto& kn : declared)
                        if (kn.second == unhex(f[2])) kind = kn.first;
                    if (!kind) { bad = true; return; }
                }
                std::size_t gi = std::stoul(f[1]);
                if (gi >= groups.size() || !groups[gi]) { bad = true; return; }
                no::group& g = *groups[gi];
                const std::string name = unhex(f[2]), descr = unhex(f[4]), env = unhex(f[5]), metavar = unhex(f[6]);
                const bool flag = f[8] == "1";
                switch (kind)
                {
                case 'o':
                {
                    auto& o = g.option(name, descr);
                    if (f[3] != "-") o.short_name(unhex(f[3]));
                    if (!env.empty()) o.env(env);
                    if (!rerequest || !metavar.empty()) o.metavar(metavar);
                    if (f[7][0] == 's') o.default_value(unhex(f[7].substr(1)));
                    if (flag) o.optional();
                    break;
                }
                case 'm':
                {
                    auto& o = g.multi_option(name, descr);
                    if (f[3] != "-") o.short_name(unhex(f[3]));
                    if (!env.empty()) o.env(env);
                    if (!rerequest || !metavar.empty()) o.metavar(metavar);
                    if (f[7][0] == 'l') o.default_value(unwire_strs(f[7].substr(1)));
                    if (flag) o.optional();
                    break;
                }
                case 't':
                {
                    int rank = f[9] == "-" ? -1 : std::stoi(f[9]);
                    no::toggle* t;
                    {
                        arena::use_slot slot(rank);
                        t = &g.toggle(name, descr);
                    }
                    if (f[3] != "-") t->short_name(unhex(f[3]));
                    if (!env.empty()) t->env(env);
                    if (!rerequest || !metavar.empty()) t->metavar(metavar);
                    if (!rerequest || f[7] != "n") t->default_value(f[7] == "1");
                    if (flag) t->allow_reverse();
                    if (rank >= 0) longs.emplace_back(rank, t);
                    break;
                }
                default:
                    bad = true;
                    return;
                }
                if (!rerequest) declared.emplace_back(kind, name);
            }
        };
        // the parse() calls of hist, on this parser object; whatever they do or raise, usage() must not notice
        auto do_parses = [&]() {
            for (char h : hist)
            {
                std::vector<std::string> args{ "prog" };
                if (h == 'g')
                {
                    for (auto& kn : declared)
                    {
                        args.push_back("--" + kn.second);
                        if (kn.first != 't') args.push_back("value");
                    }
                    for (std::size_t k = 0; k < pos_amount && k < 2; k++) args.push_back("positional");
                }
                else if (h == 'f')
                    args.push_back("--no-such-option-was-declared-xyz");
                else if (h == 'c')
                {
                    // move-construct the parser into a new object and destroy the old one; the std::map nodes (groups,
                    // options) travel with it, so the group and toggle references stay valid
                    auto q = std::make_unique<no::parser>(std::move(*pp));
                    pp = std::move(q);
                    continue;
                }
                else if (h == 'a')
                {
                    // move-assign into another, already used parser object
                    auto q = std::make_unique<no::parser>("other", "another parser", "others");
                    q->group("zz-other", "x").toggle("other-toggle");
                    q->group("aa-other", "y").option("other-option");
                    q->accept_positionals(7);
                    *q = std::move(*pp);
                    pp = std::move(q);
                    continue;
                }
                else if (h != 'e')
                    continue;
                std::vector<const char*> argv;
                for (auto& a : args) argv.push_back(a.c_str());
                try { auto parsed = pp->parse(static_cast<int>(argv.size()), argv.data()); (void)parsed; }
                catch (const std::exception&) {}
            }
        };
        declare(false);
        if (bad) return "BADCASE";
        do_parses();
        if (any_late || std::any_of(gdefs.begin(), gdefs.end(), [](const auto& f) { return f.size() == 3; }))
        {
            // a usage() call made before the declaration is complete must not be remembered
            std::stringstream early;
            pp->usage(early);
            create_groups(true);
            declare(true);
            if (bad) return "BADCASE";
        }
        // the address order of the long toggles must be the requested one
        std::sort(longs.begin(), longs.end(),
                  [](const auto& x, const auto& y) { return std::less<no::toggle*>()(x.second, y.second); });
        for (std::size_t i = 0; i < longs.size(); i++)
            if (longs[i].first != static_cast<int>(i)) order_ok = false;

        {
            std::stringstream fresh;
            apply_fmt(fresh);
            pp->usage(fresh);
            a = fresh.str();
        }
        if (badfmt) return "BADCASE";
        do_parses();
        {
            std::stringstream again;
            pp->usage(again);
            if (again.str() != a) return "USAGE-CHANGED " + hex(a) + " " + hex(again.str());
        }
        do_parses();
        {
            std::stringstream s;
            s << prior;
            apply_fmt(s);
            pp->usage(s);
            b = s.str();
            if (b.compare(0, prior.size(), prior) != 0) return "PRIOR-CONTENT-DAMAGED";
            b = b.substr(prior.size());
        }
        do_parses();
        {
            sink_buf sb;
            std::ostream os(&sb);
            if (os.tellp() != std::ostream::pos_type(-1)) return "DRIVER-SINK-IS-SEEKABLE";
            apply_fmt(os);
            pp->usage(os);
            c = sb.data;
        }
        {
            sink_buf sb;
            std::cout.flush();
            auto* old = std::cout.rdbuf(&sb);
            std::ios saved(nullptr);
            saved.copyfmt(std::cout);   // std::cout's own formatting state is restored afterwards
            apply_fmt(std::cout);
            try { pp->usage(); }
            catch (...) { std::cout.copyfmt(saved); std::cout.rdbuf(old); throw; }
            std::cout.flush();
            std::cout.copyfmt(saved);
            std::cout.rdbuf(old);
            d = sb.data;
        }
    }
    catch (const nitro::options::parser_error&) { return "DEV"; }
    catch (const nitro::options::parsing_error&) { return "USER"; }
    if (arena::overflow) return "ARENA-OVERFLOW";
    if (!order_ok) return "ORDER-NOT-FORCED";
    if (a == b && a == c && a == d) return "T " + hex(a);
    return "STREAMS-DIFFER " + hex(a) + " " + hex(b) + " " + hex(c) + " " + hex(d);
}

static std::string run_fp(const std::vector<std::string>& w)
{
    using namespace vh;
    if (w.size() != 5) return "BADCASE";
    long indent = std::stol(w[1]);
    int lp = std::stoi(w[2]), mw = std::stoi(w[3]);
    const std::string text = unhex(w[4]);
    if (indent < 0)
    {
        sink_buf sb;
        std::ostream os(&sb);
        nitro::io::terminal::format_padded(os, text, lp, mw);
        if (os.width() != 0) return "WIDTH-LEFT-SET";
        return "F " + hex(sb.data);
    }
    std::stringstream s;
    const std::string pre(static_cast<std::size_t>(indent), '#');
    s << pre;
    nitro::io::terminal::format_padded(s, text, lp, mw);
    if (s.width() != 0) return "WIDTH-LEFT-SET";
    std::string r = s.str();
    if (r.compare(0, pre.size(), pre) != 0) return "PRIOR-CONTENT-DAMAGED";
    return "F " + hex(r.substr(pre.size()));
}

static std::string run_case(const std::vector<std::string>& w)
{
    if (!w.empty() && w[0] == "U") return run_usage(w);
    if (!w.empty() && w[0] == "F") return run_fp(w);
    return "BADCASE";
}
int main(int argc, char** argv) { return vh::driver_main(argc, argv, run_case); }

// harness/sched_driver.cpp — implementation side of property C09 (thread-safe sinks).
//
// REAL threads log through nitro::log::logger types whose sink is nitro::log::sink::stdout_mt (resp.
// StdErrThreaded), two different logger types per sink class, so two sink objects share the one static mutex.
// std::cout / std::cerr get a stream buffer that is deliberately NOT thread-safe in the sense of the model:
// it traps a second thread entering while one is inside (CORRUPT) and can widen the window between two bytes.
// What this driver shows is a SAMPLE of the real interleavings, never all of them.
//
// case:   <out|err> <c0,c1,...> <dist> <mode> <seed> [ord] [same] [p1..p6] [wave] [fresh] [tied] [tsan]
//   c_t   records logged by thread t (2..32 threads)          dist  z|s|m|l|x   payload length distribution
//         h = 20000..70000 bytes; upper case S|M|L|X|H: payloads with interior/trailing/double newlines, "\r\n",
//         NUL, bytes >= 0x80 and format metacharacters
//   mode  n plain | y yield between bytes | d dwell (the thread inside waits a little for a second one to come in)
//   ord   append the observed order to an OK observation
//   same  ALL threads use ONE logger type and ONE severity, every record as a one-expression statement with
//         nine streamed items (each << move-constructs the statement's stream object): whatever a logger type
//         shares between statements of the same severity is hit by all threads at once.  Without `same`
//         even/odd threads use two logger types and the statements rotate over three forms and severities.
//   p1    the _mt sink sits inside sink::sequence<> (alone / after sink::Null)      p2  sequence<X_mt, X_mt>: every
//         record must appear exactly twice, each copy contiguous      p3  sequence<stdout_mt, StdErrThreaded>: both
//         streams are trapped and checked      p4  record with tag/severity/thread-id attributes, and_filter of a run-time
//         severity_filter and a not_filter, tags given as const char* / std::string, filtered-out statements in between
//         p5  odd threads own a sink object each and call its public sink() directly (no logger)
//         p6  EVERY statement carries a tag that is distinct per thread (and alternates with the sequence number; some longer
//         than the small-string buffer), given as const char* / string_ref; the formatter prints "[tag]" in front of the
//         message and the tag of every emitted record is compared with its thread's (observation WRONGTAG)
//   wave  threads with id >= n/2 are created by thread (id - n/2) half-way through its records and joined by it
//   fresh the case runs in a forked child in which nothing has logged yet: the first calls (logger::instance(),
//         the function-local static mutex) race
//   Without `same` the statements rotate over eight forms (one expression / named stream / single item / callable
//   item on an rvalue and on an lvalue stream / logger::log() called directly / smart_stream::sstr() / from a
//   destructor during stack unwinding and from a catch handler) and five severities, with empty-message statements
//   in between (they must not disturb anything).
//   In every case the CONTENT of each record is checked byte for byte (thread, seq, length, checksum, payload).
// observation (first defect found, fixed precedence):
//   OK c0,c1,...   [ORDER t:seq,...]  |  CORRUPT | RACE | INTERLEAVED | WRONGTAG | DUPLICATED | LOST | REORDERED
#include "common.hpp"

#include <nitro/log/log.hpp>

#include <nitro/log/attribute/message.hpp>
#include <nitro/log/attribute/timestamp.hpp>
#include <nitro/log/attribute/severity.hpp>
#include <nitro/log/attribute/std_thread_id.hpp>
#include <nitro/log/attribute/tag.hpp>
#include <nitro/log/filter/and_filter.hpp>
#include <nitro/log/filter/not_filter.hpp>
#include <nitro/log/filter/null_filter.hpp>
#include <nitro/log/filter/severity_filter.hpp>
#include <nitro/log/sink/null.hpp>
#include <nitro/log/sink/sequence.hpp>
#include <nitro/log/sink/stderr_mt.hpp>
#include <nitro/log/sink/stdout_mt.hpp>

#include <atomic>
#include <chrono>
#include <memory>
#include <thread>

#include <sys/wait.h>

namespace
{
// ------------------------------------------------------------------ ThreadSanitizer hook (tsan build only)
std::atomic<int> g_tsan_reports{ 0 };
}
extern "C" void __tsan_on_report(void*)
{
    g_tsan_reports.fetch_add(1, std::memory_order_relaxed);
}
extern "C" const char* __tsan_default_options()
{
    return "halt_on_error=0:report_signal_unsafe=0:exitcode=0:verbosity=0:log_path=/dev/null:"
           "suppress_equal_stacks=0:suppress_equal_addresses=0";
}

namespace
{
// ------------------------------------------------------------------ the trapping stream buffer
class trap_buf : public std::streambuf
{
public:
    trap_buf(std::size_t cap, char mode) : store_(new char[cap]), cap_(cap), mode_(mode)
    {
    }

    bool corrupt() const
    {
        return corrupt_.load() || plain_bytes_ != pos_.load();
    }

    std::string bytes() const
    {
        return std::string(store_.get(), std::min(pos_.load(), cap_));
    }

protected:
    std::streamsize xsputn(const char* s, std::streamsize n) override
    {
        enter();
        if (mode_ == 'd' && dwell_left_.load(std::memory_order_relaxed) > 0)
        {
            // Enter has happened, Leave has not: give a second thread the chance to come in
            dwell_left_.fetch_sub(1, std::memory_order_relaxed);
            auto until = std::chrono::steady_clock::now() + std::chrono::microseconds(400);
            while (!corrupt_.load(std::memory_order_relaxed) && std::chrono::steady_clock::now() < until)
                std::this_thread::yield();
        }
        for (std::streamsize i = 0; i < n; i++)
        {
            put(s[i]);
            if (mode_ == 'y' && (i & 7) == 0) std::this_thread::yield();
        }
        leave();
        return n;
    }

    int_type overflow(int_type c) override
    {
        if (c == traits_type::eof()) return traits_type::not_eof(c);
        enter();
        put(traits_type::to_char_type(c));
        leave();
        return c;
    }

    int sync() override
    {
        // a flush while somebody is between Enter and Leave is a race on the buffer as well
        if (inside_.load(std::memory_order_relaxed) != 0) corrupt_.store(true, std::memory_order_relaxed);
        return 0;
    }

private:
    // all atomics are relaxed on purpose: they must not create happens-before edges of their own, otherwise
    // ThreadSanitizer would consider the buffer synchronised and stay silent when the sink's lock is missing
    void enter()
    {
        if (inside_.fetch_add(1, std::memory_order_relaxed) != 0) corrupt_.store(true, std::memory_order_relaxed);
    }
    void leave()
    {
        inside_.fetch_sub(1, std::memory_order_relaxed);
    }
    void put(char c)
    {
        std::size_t i = pos_.fetch_add(1, std::memory_order_relaxed);
        if (i < cap_) store_[i] = c;
        plain_bytes_ = plain_bytes_ + 1; // unsynchronised on purpose: a lost update or a TSan report betrays a race
    }

    std::unique_ptr<char[]> store_;
    std::size_t cap_;
    char mode_;
    std::atomic<std::size_t> pos_{ 0 };
    std::atomic<int> inside_{ 0 };
    std::atomic<bool> corrupt_{ false };
    std::atomic<int> dwell_left_{ 24 };
    std::size_t plain_bytes_ = 0;
};

// ------------------------------------------------------------------ loggers
namespace nl = nitro::log;
using rec_t = nl::record<nl::message_attribute, nl::timestamp_attribute>;
using rich_t = nl::record<nl::tag_attribute, nl::message_attribute, nl::severity_attribute, nl::std_thread_id_attribute,
                          nl::timestamp_clock_attribute<std::chrono::steady_clock>>;

template <typename R>
struct fmt_a
{
    std::string format(R& r)
    {
        return r.message();
    }
};
template <typename R>
struct fmt_b
{
    std::string format(R& r)
    {
        return r.message();
    }
};
// p6: the tag is part of the emitted bytes
template <typename R>
struct fmt_tag_a
{
    std::string format(R& r)
    {
        return "[" + r.tag() + "]" + r.message();
    }
};
template <typename R>
struct fmt_tag_b
{
    std::string format(R& r)
    {
        return "[" + r.tag() + "]" + r.message();
    }
};
template <typename R>
using filt = nl::filter::null_filter<R>;
// run-time severity threshold (set to debug in main: trace statements are dropped) AND NOT(threshold no. 1, left at
// fatal+... see main): a filter expression in the path of every record of profile p4
template <typename R>
using rich_filt = nl::filter::and_filter<nl::filter::severity_filter<R>, nl::filter::not_filter<nl::filter::severity_filter<R, 1>>>;

template <typename Sink>
struct pair_of
{
    using a = nl::logger<rec_t, fmt_a, Sink, filt>;
    using b = nl::logger<rec_t, fmt_b, Sink, filt>;
};
using SO = nl::sink::stdout_mt;
using SE = nl::sink::StdErrThreaded;
using out_a = pair_of<SO>::a;
using out_b = pair_of<SO>::b;
using err_a = pair_of<SE>::a;
using err_b = pair_of<SE>::b;
using out_rich_a = nl::logger<rich_t, fmt_a, SO, rich_filt>;
using out_rich_b = nl::logger<rich_t, fmt_b, nl::sink::sequence<SO>, rich_filt>;
using err_rich_a = nl::logger<rich_t, fmt_a, SE, rich_filt>;
using err_rich_b = nl::logger<rich_t, fmt_b, nl::sink::sequence<SE>, rich_filt>;

using out_tag_a = nl::logger<rich_t, fmt_tag_a, SO, rich_filt>;
using out_tag_b = nl::logger<rich_t, fmt_tag_b, nl::sink::sequence<SO>, rich_filt>;
using err_tag_a = nl::logger<rich_t, fmt_tag_a, SE, rich_filt>;
using err_tag_b = nl::logger<rich_t, fmt_tag_b, nl::sink::sequence<SE>, rich_filt>;

// ------------------------------------------------------------------ records
struct lcg
{
    unsigned long long x;
    unsigned next()
    {
        x = (x * 1103515245ULL + 12345ULL) & 0x7fffffffULL;
        return static_cast<unsigned>(x >> 8);
    }
};

std::size_t payload_len(char dist, lcg& g)
{
    unsigned r = g.next();
    switch (dist)
    {
    case 'z': return 0;
    case 's': return r % 17;
    case 'm': return r % 257;
    case 'l': return 1024 + r % 3073;
    case 'h': return 20000 + r % 50001;
    default: return (r & 1) ? 4096 : ((r & 2) ? 0 : 1);
    }
}

std::string payload(unsigned seed, unsigned t, unsigned seq, char dist)
{
    // an upper-case dist letter: same lengths, but the payload contains line terminators ('\n', '\r', "\r\n",
    // "\n\n", a trailing '\n'), NUL, bytes >= 0x80 and metacharacters; records are framed by the length in the
    // header, never by '\n'
    bool special = dist >= 'A' && dist <= 'Z';
    if (special) dist = static_cast<char>(dist - 'A' + 'a');
    lcg g{ (seed * 2654435761ULL + t * 40503ULL + seq * 9973ULL + 1) & 0x7fffffffULL };
    std::size_t n = payload_len(dist, g);
    std::string p(n, 'a');
    for (std::size_t i = 0; i < n; i++) p[i] = static_cast<char>('a' + g.next() % 26);
    if (special && n > 0)
    {
        static const char extra[] = { '\n', '\n', '\r', '\0', '\x80', '\xff', '%', '{', '}', '$', '<', '>' };
        for (std::size_t i = 0; i < n; i++)
        {
            unsigned r = g.next() % 72;
            if (r < sizeof(extra)) p[i] = extra[r];
        }
        switch (g.next() % 5)
        {
        case 0: p[n - 1] = '\n'; break;                                   // trailing newline inside the payload
        case 1: p[0] = '\r'; if (n > 1) p[1] = '\n'; break;               // "\r\n"
        case 2: p[n / 2] = '\n'; if (n > 1) p[n / 2 - 1] = '\n'; break;   // "\n\n"
        case 3: p[0] = '\n'; break;                                       // leading newline
        default: p[n / 2] = '\n'; break;                                  // one interior newline
        }
    }
    return p;
}

unsigned checksum(const std::string& p)
{
    unsigned c = 7;
    for (unsigned char ch : p) c = (c * 131 + ch) % 1000003;
    return c;
}

std::string header(unsigned t, unsigned seq, const std::string& p)
{
    return "<" + std::to_string(t) + "," + std::to_string(seq) + "," + std::to_string(p.size()) + "," +
           std::to_string(checksum(p)) + ":";
}

template <typename R>
auto set_sev(R& r, nl::severity_level v, int) -> decltype(r.severity(), void())
{
    r.severity() = v;
}
template <typename R>
void set_sev(R&, nl::severity_level, long)
{
}

// logs its record from the destructor (used while the stack is being unwound)
template <typename L>
struct log_on_exit
{
    std::string text;
    ~log_on_exit()
    {
        L::error() << text;
    }
};

template <typename L>
void log_one(unsigned t, unsigned seq, const std::string& p, bool rich)
{
    using sev = nl::severity_level;
    const std::string h = header(t, seq, p);
    // statements that must leave no trace in the output: an empty message (the sink gets "" and writes nothing), a
    // statement without any item, and (p4 only) statements below the run-time threshold
    if (seq % 5 == 1) L::info() << "";
    if (seq % 7 == 2) L::debug();
    if (rich && seq % 3 == 0) L::trace("dropped") << "this statement is filtered out at run time" << p;
    switch (seq % 8)
    {
    case 0: L::info() << h << p << ">\n"; break; // one expression, rvalue stream all the way
    case 1:
    {
        auto s = L::warn(rich ? "a-tag" : nullptr); // named stream: the lvalue overloads; tag as const char*
        s << h;
        s << p << '>' << "\n";
        break;
    }
    case 2: L::error(rich ? nitro::lang::string_ref(std::string("tag-from-std-string")) : nullptr) << (h + p + ">\n"); break;
    case 3: L::fatal() << h << [&p]() { return p; } << ">\n"; break; // callable item on an rvalue stream
    case 4:
    {
        auto s = L::debug();
        auto tail = [&p]() { return p + ">\n"; };
        s << h << tail; // callable item on an lvalue stream
        break;
    }
    case 5:
    {
        // the public static entry points directly: will_log + log with a record filled in by hand
        typename std::remove_reference<decltype(L::info().record())>::type r;
        r.message() = h + p + ">\n";
        set_sev(r, sev::info, 0);
        if (L::will_log(r)) L::log(sev::info, r);
        break;
    }
    case 6:
    {
        auto s = L::warn();
        if (s) s.sstr() << h << p << '>' << '\n'; // the stream's own buffer
        break;
    }
    default:
        try
        {
            log_on_exit<L> g{ h + p + ">\n" };
            if (seq % 16 == 7) throw std::runtime_error("unwind"); // the record is logged during stack unwinding ...
        }
        catch (const std::exception&)
        {
            L::info() << ""; // ... and something is logged from inside the handler
        }
        break;
    }
}

// p6: the tag of thread t's record no. seq (no ']' in it)
std::string thread_tag(unsigned t, unsigned seq)
{
    std::string s = "T" + std::to_string(t);
    if (seq % 2) s += "-odd";
    if (t % 3 == 1) s += "-a-suffix-longer-than-the-small-string-buffer";
    return s;
}

template <typename L>
void log_tagged(unsigned t, unsigned seq, const std::string& p)
{
    const std::string tag = thread_tag(t, seq);
    const std::string h = header(t, seq, p);
    if (seq % 3 == 0) L::trace(tag.c_str()) << "this statement is filtered out at run time" << p;
    switch (seq % 4)
    {
    case 0: L::info(tag.c_str()) << h << p << ">\n"; break;
    case 1:
    {
        auto s = L::warn(nitro::lang::string_ref(tag));
        s << h;
        s << p << '>' << "\n";
        break;
    }
    case 2: L::error(nitro::lang::string_ref(tag)) << h << [&p]() { return p; } << ">\n"; break;
    default:
        try
        {
            throw std::runtime_error("handler");
        }
        catch (const std::exception&)
        {
            L::fatal(tag.c_str()) << (h + p + ">\n");
        }
        break;
    }
}

template <typename L>
void log_same(unsigned t, unsigned seq, const std::string& p)
{
    // one expression, nine items: eight moved-from temporaries die at the end of the full expression
    L::info() << "<" << t << "," << seq << "," << p.size() << "," << checksum(p) << ":" << p << ">\n";
}

struct plan
{
    std::vector<unsigned> counts;
    unsigned seed;
    char dist;
    bool same, wave, rich, direct, tagged = false;
    std::atomic<int> ready{ 0 };
    std::atomic<bool> go{ false };
};

template <typename LA, typename LB, typename DirectSink>
void worker(plan* pl, unsigned t, bool wait_for_go)
{
    unsigned count = pl->counts[t], n = pl->counts.size();
    std::vector<std::string> ps;
    ps.reserve(count);
    for (unsigned s = 0; s < count; s++) ps.push_back(payload(pl->seed, t, s, pl->dist));
    if (wait_for_go)
    {
        pl->ready.fetch_add(1);
        while (!pl->go.load()) std::this_thread::yield();
    }
    std::thread child;
    unsigned child_id = t + n / 2;
    bool spawns = pl->wave && t < n / 2 && child_id < n;
    DirectSink own; // p5: a sink object of this thread's own, used through its public member only
    for (unsigned s = 0; s < count; s++)
    {
        if (spawns && s == count / 2) child = std::thread(worker<LA, LB, DirectSink>, pl, child_id, false);
        if (pl->tagged)
        {
            if (t % 2 == 0) log_tagged<LA>(t, s, ps[s]);
            else log_tagged<LB>(t, s, ps[s]);
        }
        else if (pl->same)
            log_same<LA>(t, s, ps[s]);
        else if (pl->direct && t % 2 == 1)
            own.sink(static_cast<nl::severity_level>(s % 6), header(t, s, ps[s]) + ps[s] + ">\n");
        else if (t % 2 == 0) // even threads use logger type A, odd threads type B: two sink objects of the same class
            log_one<LA>(t, s, ps[s], pl->rich);
        else
            log_one<LB>(t, s, ps[s], pl->rich);
    }
    if (spawns && !child.joinable()) child = std::thread(worker<LA, LB, DirectSink>, pl, child_id, false);
    if (child.joinable()) child.join();
}

bool read_num(const std::string& b, std::size_t& i, char term, unsigned long& v)
{
    std::size_t st = i;
    v = 0;
    while (i < b.size() && b[i] >= '0' && b[i] <= '9' && i - st < 10) v = v * 10 + (b[i++] - '0');
    if (i == st || i >= b.size() || b[i] != term) return false;
    i++;
    return true;
}

// the bytes one stream received: a concatenation of whole expected records, each (t, seq) exactly `mult` times
// (mult = how many members of the sink write to this stream), per thread in program order.  No resynchronisation.
std::string judge(const std::string& b, const plan& pl, unsigned mult, std::vector<std::pair<unsigned, unsigned>>& order)
{
    unsigned n = pl.counts.size();
    std::vector<std::vector<unsigned>> seen(n);
    std::size_t i = 0, nrec = 0;
    for (unsigned c : pl.counts) nrec += c;
    while (i < b.size())
    {
        unsigned long t, s, len, ck;
        std::string got_tag;
        if (pl.tagged)
        {
            if (b[i] != '[') return "INTERLEAVED";
            std::size_t e = b.find(']', i);
            if (e == std::string::npos || e + 1 >= b.size()) return "INTERLEAVED";
            got_tag = b.substr(i + 1, e - i - 1);
            i = e + 1;
        }
        if (b[i++] != '<') return "INTERLEAVED";
        if (!read_num(b, i, ',', t) || !read_num(b, i, ',', s) || !read_num(b, i, ',', len) || !read_num(b, i, ':', ck))
            return "INTERLEAVED";
        if (t >= n || s >= pl.counts[t] || i + len + 2 > b.size()) return "INTERLEAVED";
        std::string p = b.substr(i, len);
        i += len;
        if (b[i] != '>' || b[i + 1] != '\n') return "INTERLEAVED";
        i += 2;
        if (p != payload(pl.seed, t, s, pl.dist) || ck != checksum(p)) return "INTERLEAVED";
        if (pl.tagged && got_tag != thread_tag(t, s)) return "WRONGTAG";
        seen[t].push_back(s);
        order.emplace_back(t, s);
    }
    bool lost = false, reordered = false;
    for (unsigned t = 0; t < n; t++)
    {
        std::vector<unsigned> cnt(pl.counts[t], 0);
        for (unsigned s : seen[t]) cnt[s]++;
        for (unsigned c : cnt)
        {
            if (c > mult) return "DUPLICATED";
            if (c < mult) lost = true;
        }
        for (std::size_t k = 1; k < seen[t].size(); k++)
            if (seen[t][k - 1] > seen[t][k]) reordered = true;
    }
    if (lost || order.size() != nrec * mult) return "LOST";
    if (reordered) return "REORDERED";
    return "OK";
}

using worker_fn = void (*)(plan*, unsigned, bool);

worker_fn pick(bool to_out, int profile)
{
    using namespace nl::sink;
    switch (profile)
    {
    case 1:
        return to_out ? worker<nl::logger<rec_t, fmt_a, sequence<SO>, filt>, nl::logger<rec_t, fmt_b, sequence<Null, SO>, filt>, Null>
                      : worker<nl::logger<rec_t, fmt_a, sequence<SE>, filt>, nl::logger<rec_t, fmt_b, sequence<Null, SE>, filt>, Null>;
    case 2:
        return to_out ? worker<pair_of<sequence<SO, SO>>::a, pair_of<sequence<SO, SO>>::b, Null>
                      : worker<pair_of<sequence<SE, SE>>::a, pair_of<sequence<SE, SE>>::b, Null>;
    case 3: return worker<pair_of<sequence<SO, SE>>::a, pair_of<sequence<SE, SO>>::b, Null>;
    case 4: return to_out ? worker<out_rich_a, out_rich_b, Null> : worker<err_rich_a, err_rich_b, Null>;
    case 5: return to_out ? worker<out_a, out_b, SO> : worker<err_a, err_b, SE>;
    case 6: return to_out ? worker<out_tag_a, out_tag_b, Null> : worker<err_tag_a, err_tag_b, Null>;
    default: return to_out ? worker<out_a, out_b, Null> : worker<err_a, err_b, Null>;
    }
}

std::string run_threads(const std::vector<std::string>& w, bool want_order, bool same, bool wave, int profile, bool tied)
{
    bool to_out = w[0] == "out";
    plan pl;
    for (auto& c : vh::split_on(w[1], ',')) pl.counts.push_back(static_cast<unsigned>(std::stoul(c)));
    unsigned n = pl.counts.size();
    if (n < 1 || n > 64) return "BADCASE";
    pl.dist = w[2][0];
    char mode = w[3][0];
    pl.seed = static_cast<unsigned>(std::stoul(w[4]));
    pl.same = same;
    pl.wave = wave;
    pl.rich = profile == 4;
    pl.direct = profile == 5;
    pl.tagged = profile == 6;
    unsigned mult = profile == 2 ? 2 : 1;

    std::size_t total = 0;
    for (unsigned t = 0; t < n; t++)
        for (unsigned s = 0; s < pl.counts[t]; s++)
        {
            std::string p = payload(pl.seed, t, s, pl.dist);
            total += header(t, s, p).size() + p.size() + 2 + (pl.tagged ? thread_tag(t, s).size() + 2 : 0);
        }

    // the stream(s) this sink writes to get the trapping buffer; formatting state a user may have left on the stream
    // (base, showbase, fill — not a pending width) must not matter
    std::vector<std::ostream*> streams;
    if (to_out || profile == 3) streams.push_back(&std::cout);
    if (!to_out || profile == 3) streams.push_back(&std::cerr);
    std::vector<std::unique_ptr<trap_buf>> bufs;
    std::vector<std::streambuf*> olds;
    std::vector<std::ios::fmtflags> flags;
    for (auto* os : streams)
    {
        bufs.emplace_back(new trap_buf(2 * mult * total + 4096, mode));
        olds.push_back(os->rdbuf(bufs.back().get()));
        flags.push_back(os->flags());
        if (pl.seed % 2) { os->setf(std::ios::hex, std::ios::basefield); os->setf(std::ios::showbase | std::ios::uppercase); os->fill('*'); }
    }
    // p3 writes to both streams at once.  std::cerr is tied to std::cout: every insertion into cerr first flushes cout,
    // and StdErrThreaded holds only the stderr mutex while it does — with an unsynchronised buffer under cout that flush
    // races with a thread writing through stdout_mt.  This is outside the property's quantifier (ONE logger on the stdout
    // OR the stderr sink) and is reported separately; the case unties cerr (what such a program has to do) unless the
    // word `tied` asks for the standard state.
    std::ostream* old_tie = std::cerr.tie();
    if (profile == 3 && !tied) std::cerr.tie(nullptr);
    int tsan_before = g_tsan_reports.load();
    {
        worker_fn fn = pick(to_out, profile);
        std::vector<std::thread> th;
        if (n < 2) wave = pl.wave = false;
        unsigned first_wave = wave ? n / 2 : n; // ids n/2 .. 2*(n/2)-1 are spawned by 0 .. n/2-1; a last odd one by main
        for (unsigned t = 0; t < first_wave; t++) th.emplace_back(fn, &pl, t, true);
        while (pl.ready.load() < static_cast<int>(first_wave)) std::this_thread::yield();
        pl.go.store(true);
        if (wave)
            for (unsigned t = 2 * (n / 2); t < n; t++) th.emplace_back(fn, &pl, t, false);
        for (auto& x : th) x.join();
    }
    std::cerr.tie(old_tie);
    for (std::size_t k = 0; k < streams.size(); k++)
    {
        streams[k]->rdbuf(olds[k]);
        streams[k]->flags(flags[k]);
        streams[k]->fill(' ');
        streams[k]->clear();
    }

    for (auto& b : bufs)
        if (b->corrupt()) return "CORRUPT";
    if (g_tsan_reports.load() != tsan_before) return "RACE";

    std::vector<std::pair<unsigned, unsigned>> order;
    for (auto& b : bufs)
    {
        order.clear();
        std::string v = judge(b->bytes(), pl, mult, order);
        if (v != "OK") return v;
    }
    std::string obs = "OK " + w[1];
    if (want_order)
    {
        obs += " ORDER ";
        for (std::size_t k = 0; k < order.size(); k++)
            obs += (k ? "," : "") + std::to_string(order[k].first) + ":" + std::to_string(order[k].second);
        if (order.empty()) obs += ".";
    }
    return obs;
}

std::string run_case(const std::vector<std::string>& w0)
{
    std::vector<std::string> w = w0;
    bool want_order = false, same = false, wave = false, fresh = false, tied = false;
    int profile = 0;
    while (w.size() > 5)
    {
        const std::string& f = w.back();
        if (f == "ord") want_order = true;
        else if (f == "same") same = true;
        else if (f == "wave") wave = true;
        else if (f == "fresh") fresh = true;
        else if (f == "tied") tied = true;
        else if (f.size() == 2 && f[0] == 'p' && f[1] >= '1' && f[1] <= '6') profile = f[1] - '0';
        else if (f != "tsan") return "BADCASE"; // `tsan` only routes the case to the ThreadSanitizer build (props/C09.py)
        w.pop_back();
    }
    if (w.size() != 5 || (w[0] != "out" && w[0] != "err") || w[2].size() != 1 || w[3].size() != 1) return "BADCASE";
    if (!fresh) return run_threads(w, want_order, same, wave, profile, tied);

    // a process in which no logger and no sink has been used yet
    int fd[2];
    if (pipe(fd) != 0) return "BADCASE";
    pid_t pid = fork();
    if (pid == 0)
    {
        std::signal(SIGALRM, SIG_DFL);
        alarm(4);
        close(fd[0]);
        std::string r = run_threads(w, want_order, same, wave, profile, tied);
        ssize_t ignored = write(fd[1], r.data(), r.size());
        (void)ignored;
        std::_Exit(0);
    }
    close(fd[1]);
    std::string r;
    char buf[4096];
    ssize_t k;
    while ((k = read(fd[0], buf, sizeof buf)) > 0) r.append(buf, static_cast<std::size_t>(k));
    close(fd[0]);
    int st = 0;
    waitpid(pid, &st, 0);
    if (WIFSIGNALED(st)) return WTERMSIG(st) == SIGALRM ? "HANG" : "CRASH(child signal " + std::to_string(WTERMSIG(st)) + ")";
    if (!WIFEXITED(st) || WEXITSTATUS(st) != 0 || r.empty()) return "CRASH(child exit " + std::to_string(WEXITSTATUS(st)) + ")";
    return r;
}
} // namespace

int main(int argc, char** argv)
{
    // p4: run-time thresholds, set once before any thread exists. severity_filter<R>: records >= debug pass;
    // severity_filter<R,1> sits under a not_filter: with threshold fatal+1 it rejects everything, so NOT accepts.
    nl::filter::severity_filter<rich_t>::set_severity(nl::severity_level::debug);
    nl::filter::severity_filter<rich_t, 1>::set_severity(static_cast<nl::severity_level>(6));
    // nothing is logged and no logger instance is created here: the first statements of the first case race on
    // logger::instance() and on the sinks' function-local static mutexes
    return vh::driver_main(argc, argv, run_case);
}

// harness/sched_driver.cpp — implementation side of property C09 (thread-safe sinks).
//
// REAL threads log through nitro::log::logger types whose sink is nitro::log::sink::stdout_mt (resp.
// StdErrThreaded), two different logger types per sink class, so two sink objects share the one static mutex.
// std::cout / std::cerr get a stream buffer that is deliberately NOT thread-safe in the sense of the model:
// it traps a second thread entering while one is inside (CORRUPT) and can widen the window between two bytes.
// What this driver shows is a SAMPLE of the real interleavings, never all of them.
//
// case:   <out|err> <c0,c1,...> <dist> <mode> <seed> [ord] [same] [tsan]
//   c_t   records logged by thread t (2..32 threads)          dist  z|s|m|l|x   payload length distribution
//         (upper case S|M|L|X: payloads with interior/trailing/double newlines and "\r\n")
//   mode  n plain | y yield between bytes | d dwell (the thread inside waits a little for a second one to come in)
//   ord   append the observed order to an OK observation
//   same  ALL threads use ONE logger type and ONE severity, every record as a one-expression statement with
//         nine streamed items (each << move-constructs the statement's stream object): whatever a logger type
//         shares between statements of the same severity is hit by all threads at once.  Without `same`
//         even/odd threads use two logger types and the statements rotate over three forms and severities.
//   In every case the CONTENT of each record is checked byte for byte (thread, seq, length, checksum, payload).
// observation (first defect found, fixed precedence):
//   OK c0,c1,...   [ORDER t:seq,...]  |  CORRUPT | RACE | INTERLEAVED | DUPLICATED | LOST | REORDERED
#include "common.hpp"

#include <nitro/log/log.hpp>

#include <nitro/log/attribute/message.hpp>
#include <nitro/log/attribute/timestamp.hpp>
#include <nitro/log/filter/null_filter.hpp>
#include <nitro/log/sink/stderr_mt.hpp>
#include <nitro/log/sink/stdout_mt.hpp>

#include <atomic>
#include <chrono>
#include <memory>
#include <thread>

namespace
{
// ------------------------------------------------------------------ ThreadSanitizer hook (tsan build only)
std::atomic<int> g_tsan_reports{ 0 };
}
extern "C" void __tsan_on_report(void*)
{
    g_tsan_reports.fetch_add(1, std::memory_order_relaxed);
}
extern "C" const char* __tsan_default_options()
{
    return "halt_on_error=0:report_signal_unsafe=0:exitcode=0:verbosity=0:log_path=/dev/null:"
           "suppress_equal_stacks=0:suppress_equal_addresses=0";
}

namespace
{
// ------------------------------------------------------------------ the trapping stream buffer
class trap_buf : public std::streambuf
{
public:
    trap_buf(std::size_t cap, char mode) : store_(new char[cap]), cap_(cap), mode_(mode)
    {
    }

    bool corrupt() const
    {
        return corrupt_.load() || plain_bytes_ != pos_.load();
    }

    std::string bytes() const
    {
        return std::string(store_.get(), std::min(pos_.load(), cap_));
    }

protected:
    std::streamsize xsputn(const char* s, std::streamsize n) override
    {
        enter();
        if (mode_ == 'd' && dwell_left_.load(std::memory_order_relaxed) > 0)
        {
            // Enter has happened, Leave has not: give a second thread the chance to come in
            dwell_left_.fetch_sub(1, std::memory_order_relaxed);
            auto until = std::chrono::steady_clock::now() + std::chrono::microseconds(400);
            while (!corrupt_.load(std::memory_order_relaxed) && std::chrono::steady_clock::now() < until)
                std::this_thread::yield();
        }
        for (std::streamsize i = 0; i < n; i++)
        {
            put(s[i]);
            if (mode_ == 'y' && (i & 7) == 0) std::this_thread::yield();
        }
        leave();
        return n;
    }

    int_type overflow(int_type c) override
    {
        if (c == traits_type::eof()) return traits_type::not_eof(c);
        enter();
        put(traits_type::to_char_type(c));
        leave();
        return c;
    }

    int sync() override
    {
        // a flush while somebody is between Enter and Leave is a race on the buffer as well
        if (inside_.load(std::memory_order_relaxed) != 0) corrupt_.store(true, std::memory_order_relaxed);
        return 0;
    }

private:
    // all atomics are relaxed on purpose: they must not create happens-before edges of their own, otherwise
    // ThreadSanitizer would consider the buffer synchronised and stay silent when the sink's lock is missing
    void enter()
    {
        if (inside_.fetch_add(1, std::memory_order_relaxed) != 0) corrupt_.store(true, std::memory_order_relaxed);
    }
    void leave()
    {
        inside_.fetch_sub(1, std::memory_order_relaxed);
    }
    void put(char c)
    {
        std::size_t i = pos_.fetch_add(1, std::memory_order_relaxed);
        if (i < cap_) store_[i] = c;
        plain_bytes_ = plain_bytes_ + 1; // unsynchronised on purpose: a lost update or a TSan report betrays a race
    }

    std::unique_ptr<char[]> store_;
    std::size_t cap_;
    char mode_;
    std::atomic<std::size_t> pos_{ 0 };
    std::atomic<int> inside_{ 0 };
    std::atomic<bool> corrupt_{ false };
    std::atomic<int> dwell_left_{ 24 };
    std::size_t plain_bytes_ = 0;
};

// ------------------------------------------------------------------ loggers
using rec_t = nitro::log::record<nitro::log::message_attribute, nitro::log::timestamp_attribute>;

template <typename R>
struct fmt_a
{
    std::string format(R& r)
    {
        return r.message();
    }
};
template <typename R>
struct fmt_b
{
    std::string format(R& r)
    {
        return r.message();
    }
};
template <typename R>
using filt = nitro::log::filter::null_filter<R>;

using out_a = nitro::log::logger<rec_t, fmt_a, nitro::log::sink::stdout_mt, filt>;
using out_b = nitro::log::logger<rec_t, fmt_b, nitro::log::sink::stdout_mt, filt>;
using err_a = nitro::log::logger<rec_t, fmt_a, nitro::log::sink::StdErrThreaded, filt>;
using err_b = nitro::log::logger<rec_t, fmt_b, nitro::log::sink::StdErrThreaded, filt>;

// ------------------------------------------------------------------ records
struct lcg
{
    unsigned long long x;
    unsigned next()
    {
        x = (x * 1103515245ULL + 12345ULL) & 0x7fffffffULL;
        return static_cast<unsigned>(x >> 8);
    }
};

std::size_t payload_len(char dist, lcg& g)
{
    unsigned r = g.next();
    switch (dist)
    {
    case 'z': return 0;
    case 's': return r % 17;
    case 'm': return r % 257;
    case 'l': return 1024 + r % 3073;
    default: return (r & 1) ? 4096 : ((r & 2) ? 0 : 1);
    }
}

std::string payload(unsigned seed, unsigned t, unsigned seq, char dist)
{
    // an upper-case dist letter: same lengths, but the payload contains line terminators ('\n', '\r', "\r\n",
    // "\n\n", a trailing '\n'); records are framed by the length in the header, never by '\n'
    bool nl = dist >= 'A' && dist <= 'Z';
    if (nl) dist = static_cast<char>(dist - 'A' + 'a');
    lcg g{ (seed * 2654435761ULL + t * 40503ULL + seq * 9973ULL + 1) & 0x7fffffffULL };
    std::size_t n = payload_len(dist, g);
    std::string p(n, 'a');
    for (std::size_t i = 0; i < n; i++) p[i] = static_cast<char>('a' + g.next() % 26);
    if (nl && n > 0)
    {
        for (std::size_t i = 0; i < n; i++)
        {
            unsigned r = g.next() % 12;
            if (r == 0) p[i] = '\n';
            if (r == 1) p[i] = '\r';
        }
        switch (g.next() % 5)
        {
        case 0: p[n - 1] = '\n'; break;                                   // trailing newline inside the payload
        case 1: p[0] = '\r'; if (n > 1) p[1] = '\n'; break;               // "\r\n"
        case 2: p[n / 2] = '\n'; if (n > 1) p[n / 2 - 1] = '\n'; break;   // "\n\n"
        case 3: p[0] = '\n'; break;                                       // leading newline
        default: p[n / 2] = '\n'; break;                                  // one interior newline
        }
    }
    return p;
}

unsigned checksum(const std::string& p)
{
    unsigned c = 7;
    for (unsigned char ch : p) c = (c * 131 + ch) % 1000003;
    return c;
}

std::string header(unsigned t, unsigned seq, const std::string& p)
{
    return "<" + std::to_string(t) + "," + std::to_string(seq) + "," + std::to_string(p.size()) + "," +
           std::to_string(checksum(p)) + ":";
}

template <typename L>
void log_one(unsigned t, unsigned seq, const std::string& p)
{
    // the three ways a statement can be written; the message is assembled in the statement's own buffer
    switch (seq % 3)
    {
    case 0: L::info() << header(t, seq, p) << p << ">\n"; break;
    case 1:
    {
        auto s = L::warn();
        s << header(t, seq, p);
        s << p << ">" << "\n";
        break;
    }
    default: L::error() << (header(t, seq, p) + p + ">\n"); break;
    }
}

template <typename L>
void log_same(unsigned t, unsigned seq, const std::string& p)
{
    // one expression, nine items: eight moved-from temporaries die at the end of the full expression
    L::info() << "<" << t << "," << seq << "," << p.size() << "," << checksum(p) << ":" << p << ">\n";
}

template <typename LA, typename LB>
void worker(unsigned t, unsigned count, unsigned seed, char dist, bool same, std::atomic<int>* ready, std::atomic<bool>* go)
{
    std::vector<std::string> ps;
    ps.reserve(count);
    for (unsigned s = 0; s < count; s++) ps.push_back(payload(seed, t, s, dist));
    ready->fetch_add(1);
    while (!go->load()) std::this_thread::yield();
    if (same)
    {
        for (unsigned s = 0; s < count; s++) log_same<LA>(t, s, ps[s]);
        return;
    }
    for (unsigned s = 0; s < count; s++)
    {
        // even threads use logger type A, odd threads type B: two sink objects of the same class
        if (t % 2 == 0)
            log_one<LA>(t, s, ps[s]);
        else
            log_one<LB>(t, s, ps[s]);
    }
}

bool read_num(const std::string& b, std::size_t& i, char term, unsigned long& v)
{
    std::size_t st = i;
    v = 0;
    while (i < b.size() && b[i] >= '0' && b[i] <= '9' && i - st < 10) v = v * 10 + (b[i++] - '0');
    if (i == st || i >= b.size() || b[i] != term) return false;
    i++;
    return true;
}

std::string run_case(const std::vector<std::string>& w0)
{
    // a trailing word `tsan` only routes the case to the ThreadSanitizer build (props/C09.py)
    std::vector<std::string> w = w0;
    bool want_order = false, same = false;
    while (w.size() > 5 && (w.back() == "tsan" || w.back() == "ord" || w.back() == "same"))
    {
        if (w.back() == "ord") want_order = true;
        if (w.back() == "same") same = true;
        w.pop_back();
    }
    if (w.size() != 5 || (w[0] != "out" && w[0] != "err") || w[2].size() != 1 || w[3].size() != 1)
        return "BADCASE";
    bool to_out = w[0] == "out";
    std::vector<unsigned> counts;
    for (auto& c : vh::split_on(w[1], ',')) counts.push_back(static_cast<unsigned>(std::stoul(c)));
    unsigned n = counts.size();
    if (n < 1 || n > 64) return "BADCASE";
    char dist = w[2][0], mode = w[3][0];
    unsigned seed = static_cast<unsigned>(std::stoul(w[4]));

    // expected bytes in total
    std::size_t total = 0, nrec = 0;
    for (unsigned t = 0; t < n; t++)
        for (unsigned s = 0; s < counts[t]; s++)
        {
            std::string p = payload(seed, t, s, dist);
            total += header(t, s, p).size() + p.size() + 2;
            nrec++;
        }

    trap_buf buf(2 * total + 4096, mode);
    std::ostream& os = to_out ? std::cout : std::cerr;
    std::streambuf* old = os.rdbuf(&buf);
    int tsan_before = g_tsan_reports.load();
    {
        std::atomic<int> ready{ 0 };
        std::atomic<bool> go{ false };
        std::vector<std::thread> th;
        for (unsigned t = 0; t < n; t++)
        {
            if (to_out)
                th.emplace_back(worker<out_a, out_b>, t, counts[t], seed, dist, same, &ready, &go);
            else
                th.emplace_back(worker<err_a, err_b>, t, counts[t], seed, dist, same, &ready, &go);
        }
        while (ready.load() < static_cast<int>(n)) std::this_thread::yield();
        go.store(true);
        for (auto& x : th) x.join();
    }
    os.rdbuf(old);
    os.clear();

    if (buf.corrupt()) return "CORRUPT";
    if (g_tsan_reports.load() != tsan_before) return "RACE";

    // parse the output back: a sequence of whole records
    std::string b = buf.bytes();
    std::vector<std::vector<unsigned>> seen(n);
    std::vector<std::pair<unsigned, unsigned>> order;
    std::size_t i = 0;
    while (i < b.size())
    {
        unsigned long t, s, len, ck;
        if (b[i++] != '<') return "INTERLEAVED";
        if (!read_num(b, i, ',', t) || !read_num(b, i, ',', s) || !read_num(b, i, ',', len) || !read_num(b, i, ':', ck))
            return "INTERLEAVED";
        if (t >= n || s >= counts[t] || i + len + 2 > b.size()) return "INTERLEAVED";
        std::string p = b.substr(i, len);
        i += len;
        if (b[i] != '>' || b[i + 1] != '\n') return "INTERLEAVED";
        i += 2;
        if (p != payload(seed, t, s, dist) || ck != checksum(p)) return "INTERLEAVED";
        seen[t].push_back(s);
        order.emplace_back(t, s);
    }
    // exactly once, then program order
    bool lost = false, reordered = false;
    for (unsigned t = 0; t < n; t++)
    {
        std::vector<unsigned> cnt(counts[t], 0);
        for (unsigned s : seen[t]) cnt[s]++;
        for (unsigned c : cnt)
        {
            if (c > 1) return "DUPLICATED";
            if (c == 0) lost = true;
        }
        for (std::size_t k = 1; k < seen[t].size(); k++)
            if (seen[t][k - 1] > seen[t][k]) reordered = true;
    }
    if (lost || order.size() != nrec) return "LOST";
    if (reordered) return "REORDERED";
    std::string obs = "OK " + w[1];
    if (want_order)
    {
        obs += " ORDER ";
        for (std::size_t k = 0; k < order.size(); k++)
            obs += (k ? "," : "") + std::to_string(order[k].first) + ":" + std::to_string(order[k].second);
        if (order.empty()) obs += ".";
    }
    return obs;
}
} // namespace

int main(int argc, char** argv)
{
    // instantiate the logger singletons up front (their lazy construction is not what is being tested)
    out_a::instance();
    out_b::instance();
    err_a::instance();
    err_b::instance();
    return vh::driver_main(argc, argv, run_case);
}

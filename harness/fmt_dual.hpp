// harness/fmt_dual.hpp — shared by fmt_driver.cpp, fmt_dual_exc.cpp, fmt_dual_exc3.cpp and fmt_dual_args.cpp (C08): the argument record of a
// case, the argument types that can be streamed AND converted to a string type, and the dispatch of up to three
// arguments of a variadic call in their REAL C++ types (the two users of that dispatch are separate translation units
// only so that they compile in parallel).
#pragma once
#include "common.hpp"
#include <nitro/except/raise.hpp>
#include <nitro/format/format.hpp>

#include <algorithm>
#include <cstring>
#include <filesystem>
#include <ostream>
#include <sstream>
#include <string>
#include <string_view>
#include <utility>
#include <vector>

namespace fmtv
{
// types that can be written to a stream AND (most of them) converted to a string type, the two texts being different:
// the library must use operator<< for every argument, whatever else the argument converts to
struct Tagged { std::string s; operator std::string() const { return s; } };              // implicit conversion to std::string
struct CstrConv { std::string s; operator const char*() const { return s.c_str(); } };    // implicit conversion to const char*
struct ExplConv { std::string s; explicit operator std::string() const { return s; } };   // explicit conversion only
struct StreamOnly { std::string s; };                                                      // no conversion at all
inline std::ostream& operator<<(std::ostream& o, const Tagged& x) { return o << '<' << x.s << '>'; }
inline std::ostream& operator<<(std::ostream& o, const CstrConv& x) { return o << '[' << x.s << ']'; }
inline std::ostream& operator<<(std::ostream& o, const ExplConv& x) { return o << '(' << x.s << ')'; }
inline std::ostream& operator<<(std::ostream& o, const StreamOnly& x) { return o << '#' << x.s; }

// an argument of one of the exercised kinds (see fmt_driver.cpp)
struct Val
{
    char kind = 's';
    char sub = 0;  // kind 'v': which of the types above / std::filesystem::path / std::string_view / char[16]
    std::string s; // text, or manipulator name
    std::string* var = nullptr; // kind 'n': the caller's variable
    long l = 0;    // number, or manipulator parameter
    double d = 0;
};
// streaming a Val streams the value in its real type (defined in fmt_driver.cpp)
std::ostream& operator<<(std::ostream& o, const Val& v);

// an exception type of the caller, constructed through the inherited constructor(s)
struct derived_error : nitro::except::exception
{
    using nitro::except::exception::exception;
};

// kind 'v': the value in its real type (temporaries, a char array as an lvalue array)
template <typename Fn>
void with_dual(const Val& v, Fn&& fn)
{
    switch (v.sub)
    {
    case 't': fn(Tagged{ v.s }); break;
    case 'p': fn(std::filesystem::path(v.s)); break;   // operator<< prints it quoted, the conversion is the bare text
    case 'k': fn(CstrConv{ v.s }); break;
    case 'e': fn(ExplConv{ v.s }); break;
    case 'v': fn(std::string_view(v.s)); break;
    case 'a':
    {
        char buf[16] = { 0 };
        std::memcpy(buf, v.s.data(), std::min<std::size_t>(v.s.size(), 15));
        fn(buf); // char (&)[16]
        break;
    }
    default: fn(StreamOnly{ v.s }); break;
    }
}

// ---- several arguments of a variadic call in their REAL types (not through the streaming wrapper Val) ----
// real kinds: const std::string&, const long&, and every 'v' type; one or two arguments: every combination of them;
// three arguments: one of them of any real kind, at any position, the two others fillers (const std::string&,
// const Tagged&).  with_real_pack12 / with_real_pack3 return false when the pack is not of that shape (the caller then uses the wrapper).
inline bool has_dual(const std::vector<Val>& v)
{
    for (auto& x : v) if (x.kind == 'v') return true;
    return false;
}
inline bool is_real(const Val& v) { return v.kind == 's' || v.kind == 'i' || v.kind == 'v'; }
inline bool is_filler(const Val& v) { return v.kind == 's' || (v.kind == 'v' && v.sub == 't'); }
template <typename Fn>
void with_real(const Val& v, Fn&& fn)
{
    if (v.kind == 's') fn(v.s);
    else if (v.kind == 'i') fn(v.l);
    else with_dual(v, std::forward<Fn>(fn));
}
template <typename Fn>
void with_filler(const Val& v, Fn&& fn)
{
    if (v.kind == 's') fn(v.s);
    else { const Tagged t{ v.s }; fn(t); }
}
#define VFWD(x) std::forward<decltype(x)>(x)
template <typename K>
bool with_real_pack12(const std::vector<Val>& v, K&& k)
{
    for (auto& x : v) if (!is_real(x)) return false;
    if (v.size() == 1)
        with_real(v[0], [&](auto&& a) { k(VFWD(a)); });
    else if (v.size() == 2)
        with_real(v[0], [&](auto&& a) { with_real(v[1], [&](auto&& b) { k(VFWD(a), VFWD(b)); }); });
    else
        return false;
    return true;
}
template <typename K>
bool with_real_pack3(const std::vector<Val>& v, K&& k)
{
    for (auto& x : v) if (!is_real(x)) return false;
    if (v.size() == 3 && is_filler(v[1]) && is_filler(v[2]))
        with_real(v[0], [&](auto&& a) { with_filler(v[1], [&](auto&& b) { with_filler(v[2], [&](auto&& c) { k(VFWD(a), VFWD(b), VFWD(c)); }); }); });
    else if (v.size() == 3 && is_filler(v[0]) && is_filler(v[2]))
        with_filler(v[0], [&](auto&& a) { with_real(v[1], [&](auto&& b) { with_filler(v[2], [&](auto&& c) { k(VFWD(a), VFWD(b), VFWD(c)); }); }); });
    else if (v.size() == 3 && is_filler(v[0]) && is_filler(v[1]))
        with_filler(v[0], [&](auto&& a) { with_filler(v[1], [&](auto&& b) { with_real(v[2], [&](auto&& c) { k(VFWD(a), VFWD(b), VFWD(c)); }); }); });
    else
        return false;
    return true;
}

// the message of an exception made from arguments in their real types, by every route, against what an
// ostringstream holds after the same arguments have been written to it in order: "W <hex>" when all agree
inline std::string judge_exc(const std::string& expect, const std::string& thrown, const std::string& derived,
                             const std::string& constructed)
{
    if (derived != thrown || constructed != thrown)
        return "W-DIFFER raise=" + vh::hex(thrown) + " derived=" + vh::hex(derived) + " constructed=" + vh::hex(constructed);
    if (thrown != expect) return "W-STREAM-DIFFER what=" + vh::hex(thrown) + " stream=" + vh::hex(expect);
    return "W " + vh::hex(thrown);
}
template <typename... A>
std::string exc_real(A&&... a)
{
    std::ostringstream os;
    (os << ... << a);
    std::string thrown, derived, constructed;
    try { nitro::raise(a...); }                                         // lvalues
    catch (const std::exception& e) { thrown = e.what(); }
    try { nitro::raise<derived_error>(std::as_const(a)...); }           // const lvalues, the caller's exception type
    catch (const derived_error& e) { derived = e.what(); }
    constructed = nitro::except::exception(std::forward<A>(a)...).what(); // as the caller wrote them (temporaries)
    return judge_exc(os.str(), thrown, derived, constructed);
}

// fmt_dual_exc.cpp (one or two arguments), fmt_dual_exc3.cpp (three): raise(...) / raise<derived_error>(...) /
// exception(...) with the pack in its real types; out = the observation line
bool exc_real_pack12(const std::vector<Val>& v, std::string& out);
bool exc_real_pack3(const std::vector<Val>& v, std::string& out);
inline bool exc_real_pack(const std::vector<Val>& v, std::string& out) { return exc_real_pack12(v, out) || exc_real_pack3(v, out); }
// fmt_dual_args.cpp: f.args(...) with the pack in its real types
bool args_real_pack(nitro::detail::formatter<char>& f, const std::vector<Val>& v);
} // namespace fmtv

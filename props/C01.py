# props/C01.py — the option parser never silently ignores a command-line argument
import itertools
from props.opt_common import *

class C01(OptCheck):
    prop = "C01"
    vfiles = ["Properties/Properties_C01.v", "Tie/Tie_C04.v"]
    corpus = "C01.txt"
    oracle_args = ("oracle", "C01")
    design_ref = "DESIGN.md section 6, C01"
    technique = "Coq proof: a successful parse of the model equals the spec's assignment of an item list whose rendering is the argument vector (refinement parse = explain;wf;assignment) + differential run aimed at bundles"
    level_text = "Theorem C01_parse_accounts_for_every_token (for ALL declarations, environments, object states and argument vectors: a successful parse's vector IS the rendering of a legal item list and the result IS that list's assignment) via the refinement parse = explain;wf_items;assignment (parse_refines, ~4000 lines of Coq) and render_explain; bundle letters are declared toggles; three-outcome theorem. Tied to /repo by extraction-based differential runs aimed at bundles (undeclared / option letters at every position)"
    level_note = "trusted: Coq kernel; ExtrOcamlBasic extraction + OCaml; the differential harness (generators, C++ driver through the public API under ASan/UBSan, canonical observation lines); gen/tr_vocab.py for C11. Theorem hypotheses: wf_decl (names non-empty, no '=', not starting with '-', pairwise distinct; letters neither '-' nor '='), no_clash (known finding K1: no toggle foo next to anything called no-foo), aligned state (every reachable state is: C14_reachable_aligned). Modelled, not verified: std::map name order, std::multiset::count on letters, std::getline at ';', getenv, object lifetimes, int overflow of counts (model uses Z), operator>> for typed access (exercised with as<long> on decimal texts only). The tie model=code is bounded-exhaustive + sampled, not proved"
    rule = ("core stream (exhaustive short vectors over declaration-relative tokens for 12 declaration shapes; random vectors, random declarations and environments; 'steps' histories on ONE long-lived parser object — several calls, environment changes, further declarations, move construction, move assignment from a differently declared parser — each call also made on a freshly built identical parser; declarations spread over named groups in a hash-derived order) + bundle stream: for several declarations every bundle of 2-4 letters over declared toggle letters, undeclared "
            "letters and option/multi-option letters at every position, repeated letters, each alone / followed by a value token / followed "
            "by another option; non-trivial = at least one token; distinct = distinct case line")

    def cases(self, tier, rng):
        yield from core_stream(tier, rng, 5000 if tier == "quick" else 50000)
        sh = dict(shapes())
        for dn in ["basic-unl", "basic-2", "toggles-only", "no-names", "greedy-unl"]:
            d = sh[dn]
            tl = [s for _, s, *_ in d.toggles if s]
            ol = [s for _, s, *_ in d.opts + d.multis if s]
            alpha = tl[:3] + ol[:2] + ["z", "-"]
            for n in range(2, 4 if tier == "quick" else 5):
                for t in itertools.product(alpha, repeat=n):
                    if t[0] == "-":
                        continue
                    tok = "-" + "".join(t)
                    yield case(d, [], [[tok]]), "bundle-alone"
                    yield case(d, [], [[tok, "file"]]), "bundle+value"
                    if n <= 3:
                        yield case(d, [], [["-" + tl[0], tok, "--" + d.toggles[0][0]]]), "bundle-between"
                        yield case(d, [], [[tok + "=x"]]), "bundle=value"

CHECK = C01

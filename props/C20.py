# props/C20.py — enumerate and reverse visit every element once, in the right order, in place
import itertools
from lib.framework import Check
from props.C16 import coqchk_extra

KINDS = ("vec", "arr", "list", "map", "carr", "il", "fv", "deq", "set", "str", "ui")
MAXN = 6


def valid(adaptor, kind, mode, n):
    """the combinations harness/iter_driver.cpp implements (the others do not exist in C++: a built-in array or an
    initializer list cannot be an rvalue container object, `enumerate({})` cannot deduce its element type, an lvalue
    std::initializer_list has no rbegin())"""
    if kind in ("vec", "list", "map", "fv", "deq", "ui"):
        return mode in "lcrmksq"
    if kind in ("set", "str"):
        return mode in "crmksq"
    if kind == "arr":
        return n <= MAXN and mode in "lcrmksq"
    if kind == "carr":
        return 1 <= n <= MAXN and mode in "lc"
    if kind == "il":
        if n > MAXN:
            return False
        if mode == "r":
            return n >= 1
        if mode == "m":
            return True
        return adaptor == "en" and mode in "lc"
    return False


def wl(l):
    return ",".join(str(x) for x in l) if l else "."


class C20(Check):
    prop = "C20"
    title = "enumerate and reverse visit every element once, in the right order, in place"
    vfiles = ["Properties/Properties_C20.v", "Tie/Tie_C20.v", "Extract/Extract_Misc.v"]
    cpp = dict(name="iter", driver_src="harness/iter_driver.cpp")
    ocaml = dict(name="misc", extracted="misc_model.ml", glue=("glue_base.ml",), driver="misc_driver.ml")
    corpus = "C20.txt"
    design_ref = "DESIGN.md section 6, C20"
    technique = ("Coq proof over an executable model of the range-for loop over enumerate()/reverse() (iterator = position, explicit fuel, "
                 "container threaded through the loop; invariant proofs by induction); the members of enumerate_proxy, its iterator, the owning "
                 "adaptor and the reverse adaptors are re-translated from the source by clang on every run and proved equal to the model's "
                 "e_begin/e_end/e_ne/e_incr/e_deref (Tie_C20) + extraction-based differential test against the C++ "
                 "under AddressSanitizer for every container kind and value category")
    level_text = ("Eighteen theorems in Coq for ALL element types, ranges of ANY length (also empty) and ANY update function: the range-for over "
                  "enumerate(c) ends within length+1 tests of `b != e` (so after exactly length(c) iterations), never dereferences a non-element, "
                  "visits exactly (0,c0),(1,c1),... and leaves the container as [f 0 c0; f 1 c1; ...] when the body assigns f index value through "
                  "the proxy (map g c for an index-blind body, c for a read-only one); the same for owned (temporary / moved / initializer-list) "
                  "ranges; reverse(c) visits rev c and leaves map f c, for containers with reverse iterators and for built-in arrays iterated "
                  "through a vector of references; an adaptor has no state that survives between uses (the loop is a function of the range only): the same "
                  "adaptor iterated twice, loops nested over one container, an adaptor created before the elements were changed in place, and repeated "
                  "begin() != end() tests give what a fresh adaptor gives; two ranges alive at once are independent: whatever the body of a loop over an "
                  "adaptor of a does with another container b (e.g. a whole loop over an adaptor of b), the outer loop visits exactly a's elements and "
                  "a ends as the pointwise image, and b is unchanged unless that code writes it; an owning adaptor is a value (a copied or moved adaptor shows "
                  "its own elements whatever becomes of the source). Tie_C20 (10 theorems, re-proved on every run over Gen/GenEnumerate.v, which gen/tr_enumerate.py writes "
                  "from clang's AST of enumerate.hpp/reverse.hpp): the constructor stores (it, index), begin()/end() = {begin_,0}/{end_,0} are e_begin/e_end, "
                  "operator!= is e_ne, operator++ / operator++(int) are e_incr (returning the object / its old value), both operator* are e_deref, the owning "
                  "adaptor's begin()/end() are e_begin/e_end of the owned copy, reverse_proxy hands back the iterators it was built from and detail::reverse "
                  "uses crbegin()/crend(); an unrecognised construct (e.g. std::move of a member in begin()) is IUnknown, on which no obligation is provable. "
                  "The model (iterator = position, index incremented with it, end detected by position only, "
                  "reverse iterator with base b denoting element b-1) is tied to /repo by running the extracted model and the real adaptors (ASan/"
                  "UBSan build of the working tree) on every container kind x value category x length 0..5 (0..6 thorough) x several element "
                  "lists and comparing visits, per-visit address identity with the container's own elements, and contents after writing through "
                  "the adaptor; an oracle built from the spec (combine (seq 0 n) c, rev c, map f c) judges every differing observation")
    level_note = ("trusted: Coq kernel, ExtrOcamlBasic extraction, OCaml compiler, the differential harness, gen/tr_enumerate.py's reading of the clang AST "
                  "and the meaning Misc/IterLang.v gives to the member expressions (an underlying iterator is a position; fields by declaration order). ASSUMED (exercised by the driver only, "
                  "under AddressSanitizer): C++ overload resolution among the enumerate()/reverse() overloads (T&, const T&, T&&, initializer_list&&, "
                  "T(&)[N]), lifetime extension of the temporary adaptor (and of the container moved into it) over the whole range-for statement, "
                  "the containers' own iterators (std::vector/array/list/map, std::reverse_iterator, fixed_vector's rbegin/rend), "
                  "std::reference_wrapper; that adaptors share no hidden state (in the model two ranges are two independent lists) is tied to the code by "
                  "the reuse and multi-container cases only; aliasing is modelled as 'the write lands at the visited position' and observed as address identity. "
                  "The correspondence is bounded-exhaustive over kinds/modes/lengths with sampled element values, not proved")
    rule = ("all (adaptor, container kind, value category, length) combinations that exist in C++: adaptor in {enumerate, reverse}, kind in {vector, "
            "std::array, list, map, built-in array, initializer_list, fixed_vector, deque, set, std::string}, category in {lvalue with write-through, const lvalue, temporary "
            "created inside the for statement, std::move of a local, CONST temporary returned by a function, static_cast<const T&&> of a temporary, "
            "std::move of a const local}, length 0..5 (0..6 thorough), each with several element lists (ascending, "
            "all-equal, random distinct from VERIF_SEED); the kind `ui` is a user-defined multi-pass range whose bidirectional iterator owns a "
            "std::shared_ptr and a std::string, so that a MOVED-FROM iterator is visibly not the iterator it was (all modes, reuse and manual scenarios); "
            "plus REUSE scenarios on vector/list/map/fixed_vector/ui, lengths 0..5(6): one adaptor object iterated "
            "twice (over an lvalue and owning a temporary), ONE named adaptor (over an lvalue, a const lvalue, owning a temporary) iterated by three "
            "range-for statements, the second writing through it, then begin() and end() called twice each on it and both iterator pairs run, enumerate-in-enumerate and reverse-in-enumerate over the same container, adaptor created "
            "before an in-place change of all elements, begin()!=end() asked before/after a loop and through stored iterators; and MULTI-CONTAINER scenarios with two / three different "
            "containers of one kind, element type and length alive at once (built-in arrays of equal extent, std::array, vector, list, fixed_vector; "
            "lvalue and owning adaptors): every nesting of {reverse, enumerate} in {reverse, enumerate} over different containers with and without "
            "a write through the outer element, three-level reverse nesting, two stored adaptors created one after the other and iterated in either "
            "order with and without write-through, always followed by reading ALL containers; and RELOCATION scenarios for owning adaptors (enumerate/reverse of a temporary vector, list, "
            "std::array, fixed_vector and of a braced list, kept in a variable): copied, moved, copy-/move-assigned, returned by value through a "
            "non-elided path, pushed into a reallocating std::vector, moved between std::optionals, with the source then destroyed or reassigned, "
            "after which the copy / target (and the source when alive) is iterated; MANUAL iteration over begin()/end() of stored adaptors: ++it, it++, "
            "the old value returned by it++, a copied iterator continued next to the original, std::for_each (enumerate iterator: nothing beyond "
            "the operations it declares), for reverse also ==, std::distance, std::next, copying out; ELEMENT TYPES constructible from their own container (std::any, a recursive "
            "Value(vector<Value>), a type with an initializer_list-of-itself constructor) over lvalue / temporary vectors and lists and braced "
            "lists, lengths 0..4, and move-only elements (unique_ptr: moved out and replaced through the adaptor); enumerate(reverse(c)); "
            "const adaptor objects (the forms whose begin()/end() are const); const iterator / const proxy accessors; the BINDING FORM of the enumerate loop variable (auto, auto&&, const auto&, const auto, a helper "
            "taking the pair by const&) over lvalue ranges of std::string elements with address identity and write-through (append); a case is non-trivial when the range has at least one element; distinct = distinct case line")
    modelled_note = ("modelled, not verified: overload resolution, lifetime of temporaries, the underlying containers' iterators and "
                     "std::reverse_iterator (a position / a base position in the model)")

    def cases(self, tier, rng):
        maxn = 5 if tier == "quick" else MAXN
        reps = 4 if tier == "quick" else 40
        for ad in ("en", "rv"):
            for kind in KINDS:
                for mode in "lcrmksq":
                    for n in range(0, maxn + 1):
                        if not valid(ad, kind, mode, n):
                            continue
                        if kind == "set":       # a std::set holds its elements ascending and distinct
                            lists = [list(range(10, 10 + n))] + [sorted(rng.sample(range(-50, 1000), n)) for _ in range(reps)]
                        elif kind == "str":     # character codes
                            lists = [list(range(97, 97 + n)), [122] * n] + [[rng.randint(32, 126) for _ in range(n)] for _ in range(reps)]
                        else:
                            lists = [list(range(10, 10 + n)), [7] * n, list(range(n, 0, -1))]
                            for _ in range(reps):
                                lists.append(rng.sample(range(-50, 1000), n))
                        for l in lists:
                            yield "%s %s %s %s" % (ad, kind, mode, wl(l)), "exh-%s-%s" % (ad, mode)
        # the SAME adaptor object / container used more than once (state that would survive between uses)
        # ("ui": a range whose iterator owns a shared_ptr / std::string, so that a moved-from iterator is not the iterator it was;
        #  en3 / rv3: ONE named adaptor iterated three times by range-for, the second pass writing, then begin()/end() twice each)
        for sc in ("en2", "rv2", "en3", "rv3", "enen", "enrv", "enmod", "rvmod", "enbe", "rvbe", "nest", "cad"):
            for kind in ("vec", "list", "map", "fv", "ui"):
                for mode in ("lcr" if sc in ("en3", "rv3") else "lr" if sc in ("en2", "rv2", "enbe", "rvbe", "nest", "cad") else "l"):
                    for n in range(0, maxn + 1):
                        lists = [list(range(10, 10 + n)), [7] * n]
                        for _ in range(max(1, reps // 2)):
                            lists.append(rng.sample(range(-50, 1000), n))
                        for l in lists:
                            yield "re %s %s %s %s" % (sc, kind, mode, wl(l)), "reuse-" + sc
        # SEVERAL containers of one kind / element type / length alive at once (state shared between adaptors)
        nest = ["n" + o + i + w for o in "re" for i in "re" for w in "-w"]
        stored = ["s" + p + q + k + w for p in "re" for q in "re" for k in "12" for w in "-w"]
        for kind in ("carr", "arr", "vec", "list", "fv"):
            top = 4 if kind in ("carr", "arr") else maxn
            for mode in ("l" if kind == "carr" else "lo"):
                for sc in nest + stored + ["n3"]:
                    if mode == "o" and sc.endswith("w"):
                        continue
                    for n in range(1 if kind == "carr" else 0, top + 1):
                        if sc == "n3" and n > 3:
                            continue
                        for _ in range(1 if tier == "quick" else 6):
                            ls = [rng.sample(range(-50, 1000), n) for _ in range(3 if sc == "n3" else 2)]
                            yield "mc %s %s %s %s" % (sc, kind, mode, " ".join(wl(l) for l in ls)), "multi-" + ("n3" if sc == "n3" else sc[0])
        # OWNING adaptors copied / moved / assigned / returned / stored in a vector or an optional, the source destroyed or reassigned
        for sc in ("cp", "cpd", "mv", "mvd", "asg", "masg", "ret", "vec", "opt"):
            for ad in ("en", "rv"):
                for kind in ("vec", "list", "fv", "arr", "il"):
                    top = 4 if kind in ("arr", "il") else maxn
                    for n in range(1 if kind == "il" else 0, top + 1):
                        for _ in range(1 if tier == "quick" else 5):
                            l1, l2 = rng.sample(range(-50, 1000), n), rng.sample(range(-50, 1000), n)
                            yield "ow %s %s %s %s %s" % (sc, ad, kind, wl(l1), wl(l2)), "owned-" + sc
        # MANUAL iteration over begin()/end(): ++it, it++, the old value returned by it++, a copied iterator continued,
        # std::for_each; for reverse also ==, std::distance, std::next, copying out
        for ad in ("en", "rv"):
            for kind in ("vec", "list", "map", "fv", "ui"):
                for mode in "lr":
                    for n in range(0, maxn + 1):
                        for l in [list(range(10, 10 + n))] + [rng.sample(range(-50, 1000), n) for _ in range(max(1, reps // 2))]:
                            yield "mi %s %s %s %s" % (ad, kind, mode, wl(l)), "manual"
        # ELEMENT TYPES constructible from their own container / initializer list (std::any, a recursive Value, a type with an
        # initializer_list-of-itself constructor): lvalue, temporary and braced-list ranges, lengths 0..4
        for ad in ("en", "rv"):
            for ty in ("any", "val", "ilt", "up"):
                for kind, modes in (("vec", "lr"), ("list", "lr"), ("il", "r")):
                    if ty == "up" and kind == "il":
                        continue
                    for mode in modes:
                        for n in range(1 if kind == "il" else 0, 5):
                            for l in [list(range(10, 10 + n))] + [rng.sample(range(0, 1000), n) for _ in range(1 if tier == "quick" else 5)]:
                                yield "et %s %s %s %s %s" % (ad, ty, kind, mode, wl(l)), "elemtype"
        # BINDING FORM of the enumerate loop variable (auto, auto&&, const auto&, const auto, helper taking const&) over lvalue
        # ranges of std::string elements: address identity of p.value() and write-through (append) for every form
        for form in "afckh":
            for kind in ("vec", "list", "deq", "map", "fv", "arr", "carr"):
                for n in range(1 if kind == "carr" else 0, 5):
                    for l in [list(range(10, 10 + n))] + [rng.sample(range(0, 1000), n) for _ in range(1 if tier == "quick" else 4)]:
                        yield "bf %s %s %s" % (form, kind, wl(l)), "binding"
        # longer ranges for the kinds whose length is not a template parameter
        for _ in range(60 if tier == "quick" else 1500):
            ad = rng.choice(("en", "rv"))
            kind = rng.choice(("vec", "list", "map", "fv", "ui"))
            mode = rng.choice("lcrmksq")
            n = rng.choice([7, 8, 16, 17, 33, rng.randint(6, 80)])
            yield "%s %s %s %s" % (ad, kind, mode, wl([rng.randint(-1000, 1000) for _ in range(n)])), "long"

    def extra(self, ctx):
        coqchk_extra(self, ctx, ["Nitro.Properties.Properties_C20"])

    def nontrivial(self, case, mobs, iobs):
        w = case.split()
        if w[0] == "mc":
            return w[-1] != "." and len(set(w[4:])) == len(w[4:])    # non-empty, pairwise different contents
        if w[0] == "ow":
            return w[-1] != "." and w[-1] != w[-2]
        return w[-1] != "."

    def signature(self, case, mobs, iobs):
        w = case.split()
        n = 0 if w[-1] == "." else w[-1].count(",") + 1
        if w[0] in ("mc", "ow"):
            return tuple(w[:4]) + (min(n, 7), iobs.split(" ")[0])
        if w[0] == "et":
            return tuple(w[:5]) + (min(n, 7), iobs.split(" ")[0])
        return tuple(w[:-1]) + (min(n, 7), iobs.split(" ")[0])

    def shrink(self, case):
        w = case.split()
        if w and w[0] in ("mc", "ow"):
            ls = [x.split(",") if x != "." else [] for x in w[4:]]
            for i in range(len(ls[0])):      # drop position i in every container (they must keep one length)
                yield " ".join(w[:4] + [",".join(l[:i] + l[i + 1:]) or "." for l in ls])
            for k, l in enumerate(ls):
                for i, e in enumerate(l):
                    if len(e) > 1:
                        small = str(k * 10 + i)
                        if len(small) < len(e):
                            yield " ".join(w[:4] + [",".join(m[:i] + [small] + m[i + 1:]) if j == k else (",".join(m) or ".") for j, m in enumerate(ls)])
            return
        if len(w) not in (4, 5, 6) or w[-1] == ".":
            return
        el = w[-1].split(",")
        for i in range(len(el)):
            yield " ".join(w[:-1] + [",".join(el[:i] + el[i + 1:]) or "."])
        for i, e in enumerate(el):
            if e not in ("0", "1"):
                yield " ".join(w[:-1] + [",".join(el[:i] + ["1"] + el[i + 1:])])


CHECK = C20

# props/C16.py — hashing agrees with equality, comparison with the member tuple, hash containers
import itertools
from lib import framework
from lib.framework import Check

# ------------------------------------------------------------------ the C++ types of harness/hash_driver.cpp, as shapes
#   leaf kind letter | ('T', [shapes]) tuple | ('O', [shapes]) tuple_operators type | ('P', a, b) pair
#   | ('V', [alternatives]) variant | ('U', shape) unique_ptr / shared_ptr
P = ('O', ['i', 's', 'd'])
Q = ('O', ['h', P])
V3 = ('V', ['i', 's', P])
VT = ('VZ', ['i', 's', ('O', ['i'])])
TYPES = {
    'S': 's',          # a std::string by itself
    'P': P,
    'Q': Q,
    'R': ('O', [('P', 'i', 's'), ('V', ['i', 's']), ('T', ['i', 'i'])]),
    'E': ('O', []),
    'N': ('O', ['c', 'u', 'l', 'b', 'f']),
    'M': ('O', ['a', 'g', 'm', 'e', 'j', 'w', 'x', 'y']),   # char, unsigned short, unsigned long long, long double, char32_t, wide strings
    'M2': ('T', ['k', 'n', 'o', 'q']),                      # unsigned char, long, wchar_t, char16_t
    'T3': ('T', ['i', 's', 'd']),
    'T0': ('T', []),
    'T1': ('T', ['s']),
    'TI2': ('T', ['i', 'i']),
    'TI3': ('T', ['i', 'i', 'i']),   # zero-hash components at every position, swaps of any two
    'TN': ('T', ['h', ('T', ['i', 's']), P]),
    'PR': ('P', 'i', 's'),
    'PI2': ('P', 'i', 'i'),
    'PRN': ('P', P, ('P', 'i', 'i')),
    'V3': V3,
    'UP': ('U', P),
    'SQ': ('U', Q),
    'TU': ('T', [('U', 'i'), ('U', 's')]),
    'PV': ('P', ('U', V3), 'i'),
    # variants that can be valueless_by_exception() ('VZ': alternative K's constructor can throw), alone and as members
    'VT': VT,
    'TV': ('T', ['i', VT]),
    'PVT': ('P', VT, 'i'),
    'OV': ('O', [VT, 'i']),
    'UV': ('U', VT),
    # shared_ptr-only types (copyable: also usable as keys of the hash containers and in TWIN cases, see `al`)
    'SI': ('U', 'i'),
    'SS': ('U', 's'),
    'TS': ('T', [('U', 'i'), 's', ('U', 's')]),
    'PS': ('P', ('U', 's'), 'i'),
    'OS': ('O', [('U', 'i'), 'i']),
}
TUPLE_OPERATORS_TYPES = ('P', 'Q', 'R', 'E', 'N', 'M', 'OV')
POINTER_TYPES = ('UP', 'SQ', 'TU', 'PV', 'UV', 'SI', 'SS', 'TS', 'PS', 'OS')
SHARED_ONLY_TYPES = ('SI', 'SS', 'SQ', 'TS', 'PS', 'OS')
# ownership forms of a pointer value (letter between U and '(' on the wire): '' make_unique/make_shared, c copy of another
# shared_ptr, n adopted from new, a NON-OWNING alias (aliasing constructor, empty owner), o owning alias, u from a unique_ptr, k moved
OWN_FORMS = ('', '', 'c', 'n', 'a', 'a', 'o', 'u', 'k')
TWIN_FORMS = 'caok'

def hx(s):
    return s.encode("latin-1").hex() if s else "-"

GRID_QUICK = {
    'i': ['-1', '0', '1', '2147483647'],
    's': [hx(x) for x in ['', 'a', 'b', 'ab']],
    'd': ['-0.0', '0.0', '1.5'],
    'h': ['-1', '0', '1'],
    'c': ['-1', '0', '1'],
    'u': ['0', '1', '4294967295'],
    'l': ['-1', '0', '1099511627776'],
    'b': ['0', '1'],
    'f': ['-0.0', '0.0', '1.5'],
    'a': ['-1', '0', '97'],
    'k': ['0', '255'],
    'g': ['0', '1', '65535'],
    'n': ['-1', '0', '1099511627776'],
    'm': ['0', '1', '4611686018427387903'],
    'o': ['0', '97'],
    'q': ['0', '65535'],
    'j': ['0', '97', '1114111'],
    'e': ['-0.0', '0.0', '1.5'],
    'w': [hx(x) for x in ['', 'a', 'ab']],
    'x': [hx(x) for x in ['', 'a', 'ab']],
    'y': [hx(x) for x in ['', 'a', 'ab']],
}
GRID_THOROUGH = dict(GRID_QUICK)
GRID_THOROUGH.update({
    'i': ['-2147483648', '-1', '0', '1', '2', '2147483647'],
    's': [hx(x) for x in ['', 'a', 'b', 'ab', 'ba', 'a\x00', '\xff']],
    'd': ['-1.5', '-0.0', '0.0', '1.5', '1e300', 'inf'],
    'h': ['-32768', '-1', '0', '1', '32767'],
    'l': ['-4611686018427387904', '-1', '0', '1099511627776'],
})
SHORTEST = {k: min(v, key=len) for k, v in GRID_QUICK.items()}

# long strings: lengths around the small-string buffer and around every plausible "only look at part of it" threshold
LONG_LENGTHS = [15, 16, 17, 31, 32, 33, 63, 64, 65, 127, 128, 129, 255, 256, 257, 1000, 4096]


def long_base(n):
    return "".join(chr(97 + (i * 7 + i // 26) % 26) for i in range(n))


def long_variants(n):
    """(name, string) pairs: the base string of length n changed in exactly one position (first, last, middle, 32 / 33
    characters from either end) or with two different middle characters exchanged"""
    b = long_base(n)
    out = []
    pos = {"first": 0, "last": n - 1, "middle": n // 2, "at32": 32, "at33": 33, "end32": n - 32, "end33": n - 33, "at31": 31, "end34": n - 34}
    seen = set()
    for name, i in pos.items():
        if 0 <= i < n and i not in seen:
            seen.add(i)
            out.append((name, b[:i] + ("Z" if b[i] != "Z" else "Y") + b[i + 1:]))
    i = n // 2
    j = i - 1
    while j >= 0 and b[j] == b[i]:
        j -= 1
    if j >= 0:
        l = list(b)
        l[i], l[j] = l[j], l[i]
        out.append(("swap", "".join(l)))
    return out


LONG_TOKENS = sorted(set('s' + hx(x) for n in LONG_LENGTHS for x in [long_base(n)] + [v for _, v in long_variants(n)]))
LONG_STRING_TYPES = ('S', 'T1', 'P', 'Q', 'PR', 'T3', 'TN', 'R', 'V3', 'UP', 'SQ', 'TU', 'PV', 'VT', 'OV', 'PVT')


def is_leaf(sh):
    return isinstance(sh, str)


def count_values(sh, grid):
    if is_leaf(sh):
        return len(grid[sh])
    if sh[0] in ('T', 'O'):
        n = 1
        for c in sh[1]:
            n *= count_values(c, grid)
        return n
    if sh[0] == 'P':
        return count_values(sh[1], grid) * count_values(sh[2], grid)
    if sh[0] == 'V':
        return sum(count_values(c, grid) for c in sh[1])
    if sh[0] == 'VZ':
        return 1 + sum(count_values(c, grid) for c in sh[1])
    return count_values(sh[1], grid)


def all_values(sh, grid):
    """every value of the shape over the grid, as abstract trees:
       ('L', kind, text) | ('T'|'O', [..]) | ('P', a, b) | ('V', k, v) | ('U', v[, ownership form])"""
    if is_leaf(sh):
        return [('L', sh, t) for t in grid[sh]]
    if sh[0] in ('T', 'O'):
        return [(sh[0], list(c)) for c in itertools.product(*[all_values(x, grid) for x in sh[1]])]
    if sh[0] == 'P':
        return [('P', a, b) for a in all_values(sh[1], grid) for b in all_values(sh[2], grid)]
    if sh[0] in ('V', 'VZ'):
        return ([('Z',)] if sh[0] == 'VZ' else []) + [('V', k, v) for k, alt in enumerate(sh[1]) for v in all_values(alt, grid)]
    return [('U', v) for v in all_values(sh[1], grid)]


def random_value(sh, grid, rng):
    if is_leaf(sh):
        return ('L', sh, rng.choice(grid[sh]))
    if sh[0] in ('T', 'O'):
        return (sh[0], [random_value(x, grid, rng) for x in sh[1]])
    if sh[0] == 'P':
        return ('P', random_value(sh[1], grid, rng), random_value(sh[2], grid, rng))
    if sh[0] in ('V', 'VZ'):
        if sh[0] == 'VZ' and rng.random() < 0.4:
            return ('Z',)
        k = rng.randrange(len(sh[1]))
        return ('V', k, random_value(sh[1][k], grid, rng))
    return ('U', random_value(sh[1], grid, rng), rng.choice(OWN_FORMS))


def reform(v, rng):
    """v with the ownership form of every pointer chosen afresh (the pointees stay what they are)"""
    if v[0] in ('L', 'Z'):
        return v
    if v[0] in ('T', 'O'):
        return (v[0], [reform(c, rng) for c in v[1]])
    if v[0] == 'P':
        return ('P', reform(v[1], rng), reform(v[2], rng))
    if v[0] == 'V':
        return ('V', v[1], reform(v[2], rng))
    return ('U', reform(v[1], rng), rng.choice(OWN_FORMS))


def leaf_paths(v, path=()):
    if v[0] == 'L':
        return [path]
    if v[0] == 'Z':
        return []
    if v[0] in ('T', 'O'):
        return [p for i, c in enumerate(v[1]) for p in leaf_paths(c, path + (i,))]
    if v[0] == 'P':
        return leaf_paths(v[1], path + (0,)) + leaf_paths(v[2], path + (1,))
    if v[0] == 'V':
        return leaf_paths(v[2], path + (0,))
    return leaf_paths(v[1], path + (0,))


def replace_at(v, path, f):
    if not path:
        return f(v)
    i, rest = path[0], path[1:]
    if v[0] in ('T', 'O'):
        l = list(v[1])
        l[i] = replace_at(l[i], rest, f)
        return (v[0], l)
    if v[0] == 'P':
        return ('P', replace_at(v[1], rest, f), v[2]) if i == 0 else ('P', v[1], replace_at(v[2], rest, f))
    if v[0] == 'V':
        return ('V', v[1], replace_at(v[2], rest, f))
    return ('U', replace_at(v[1], rest, f)) + tuple(v[2:])


def tokens(v):
    """leaf tokens (without hash) of a value"""
    if v[0] == 'L':
        return [v[1] + v[2]]
    if v[0] == 'Z':
        return []
    if v[0] in ('T', 'O'):
        return [t for c in v[1] for t in tokens(c)]
    if v[0] == 'P':
        return tokens(v[1]) + tokens(v[2])
    if v[0] == 'V':
        return tokens(v[2])
    return tokens(v[1])


def coqchk_extra(chk, ctx, modules):
    """thorough tier: re-check the compiled property modules (and everything they depend on) with coqchk"""
    if ctx.get("tier") != "thorough" or not ctx["coq"]["ok"]:
        return
    import time
    t0 = time.time()
    with framework.Lock("coq"):
        rc, out = framework.sh(["coqchk", "-silent", "-o", "-Q", "theories", "Nitro"] + modules, cwd=framework.COQ, timeout=1800)
    ok = rc == 0 and "* Axioms: <none>" in out
    ctx.setdefault("coverage_extra", {})["coqchk"] = dict(modules=modules, ok=ok, seconds=round(time.time() - t0, 1),
                                                          summary=" ".join(out[-600:].split()))
    if not ok:
        ctx["violations"].append((" no-failing-input-found", dict(property=chk.prop, kind="proof", broken="coqchk rejects the compiled theorems or finds axioms",
                                                                   log=out[-4000:])))


class C16(Check):
    prop = "C16"
    title = "Hashing agrees with equality, and comparison with the member tuple"
    vfiles = ["Properties/Properties_C16.v", "Tie/Tie_C16.v", "Extract/Extract_Misc.v"]
    cpp = dict(name="hash", driver_src="harness/hash_driver.cpp")
    ocaml = dict(name="misc", extracted="misc_model.ml", glue=("glue_base.ml",), driver="misc_driver.ml")
    corpus = "C16.txt"
    design_ref = "DESIGN.md section 6, C16 (and 3.4 for the translated constants)"
    technique = ("Coq proof over an executable model of hash.hpp / tuple_operators.hpp / unordered.hpp (nested induction over value trees, "
                 "64-bit word arithmetic written mod 2^64) + translator-checked constants (Tie_C16) + extraction-based differential test "
                 "of the exact 64-bit hash words, the six operators and container look-ups against the C++")
    level_text = ("Twenty theorems in Coq (incl.: hash and == do not depend on the OWNERSHIP FORM of the smart pointers in a value), for ALL values built from leaves, std::tuple, std::pair, std::variant, smart pointers and "
                  "tuple_operators types in any nesting, any leaf type and any std::hash: equal values hash equal; every hash is a 64-bit word; "
                  "hash_combine is injective in the combined value for a fixed seed (any magic constant / shifts), hence a changed LAST component, "
                  "pair.second or variant alternative value always changes the hash, and a changed component at any position changes the running "
                  "seed at that position; the six friend operators of tuple_operators<T> are exactly the textbook lexicographic predicates on the "
                  "member lists; exactly one of <, ==, > holds; < is transitive; <= is < or ==; a hash table that compares keys only when their "
                  "hash words agree finds exactly the inserted keys (first payload); the hash has no history: in the model an object is nothing but "
                  "its member list and t.hash() is recomputed from it on every call, so after any sequence of hash requests, in-place member "
                  "assignments and whole-object assignments the hash is that of a freshly built object with the current members (hence of every equal "
                  "value, however it came to be) - the driver exercises exactly such histories on the real P and Q. NOT claimed: collision-freedom beyond the running-seed "
                  "statement (that a change at an inner position or a swap of components survives the remaining combine steps holds only 'up to "
                  "rare collisions' and is exercised on the grid, not proved). The model is tied to /repo by (a) a translator that re-reads the "
                  "statement of hash_combine_impl (clang AST and lexically) and the initial seeds on every run, with vm_compute obligations that "
                  "they are the model's constants, and (b) running the extracted model and the real code (ASan/UBSan build of the working tree) on "
                  "the same exhaustive/sampled grid and comparing exact hash words, operator results and look-ups; an oracle built from the spec "
                  "judges every differing observation")
    level_note = ("trusted: Coq kernel, ExtrOcamlBasic extraction, OCaml compiler, the translator gen/tr_hash.py, the differential harness. "
                  "ASSUMED as premises of the theorems (Section variables, exercised by the driver only): std::hash on the leaf types (its values "
                  "are read from the real library at the start of each run and given to the model as h; 'equal leaves hash equal' incl. -0.0/0.0 is "
                  "checked on the grid only), == and < of the leaf types being an equivalence / strict total order (floating-point == on the grid; "
                  "NaN excluded), std::tuple / std::pair / std::variant relational operators as libstdc++ defines them (modelled by lex2/all2), "
                  "C++ overload resolution among the hash() overloads and ADL for the friend operators, std::unordered_set/map itself (modelled as "
                  "'compare only entries with the same hash word'). That a real tuple_operators object carries no hidden state "
                  "besides its members (what 'the hash has no history' says about the model) is tied to the code only by the history cases of the "
                  "driver (member-wise / as_tuple() / copy / move changes after a first hash or container use, through copies, sets of 1..31 elements). "
                  "Smart pointers: equality in the model is pointee equality (address equality "
                  "implies it); ordering of pointers is not modelled. The variant index is not hashed by the code (variant<int,long>{1} and {1L} "
                  "collide by construction) - allowed by the property. The correspondence is bounded-exhaustive + sampled, not proved")
    rule = ("pointer VALUES in seven OWNERSHIP FORMS (make_unique/make_shared, copy of another shared_ptr, adopted from new, NON-OWNING alias "
            "made by the aliasing constructor with an empty owner (non-null, use_count()==0), owning alias, made from a unique_ptr, moved; never null) "
            "wherever a pointer occurs (alone, tuple / pair / tuple_operators member, pointee variant / object), pairs with equal pointees in different "
            "forms, and TWIN cases on 6 shared_ptr-only types (x and a y whose pointers are x's own pointers re-made in another form: x == y, equal "
            "hashes, y found as key x of unordered_set / unordered_map and not accepted as a second key); "
            "values of 28 C++ types (6 tuple_operators structs incl. nested, empty and mixed-width ones; tuples, pairs, variants, unique_ptr/"
            "shared_ptr and tuples/pairs of them; a variant with an alternative whose constructor throws, driven into valueless_by_exception(), "
            "alone and as tuple / pair / tuple_operators member / pointee) over small grids of leaves (ints {-1,0,1,2^31-1}, strings {'',a,b,ab}, doubles {-0.0,0.0,1.5}, "
            "plus LONG strings of lengths 15..17, 31..33, 63..65, 127..129, 255..257, 1000, 4096 in pairs differing in one character (first, last, "
            "middle, 31..34 from either end) or by a swap of two middle characters, as the string component of 16 shapes, "
            "short/char/unsigned/long long/bool/float grids; larger grids in the thorough tier): ALL ordered pairs of P (and of Q in the thorough "
            "tier), for every type structured pairs (equal copy, -0.0 vs 0.0, one leaf changed, two components swapped) and random pairs, "
            "sampled/all triples for transitivity, unordered_set/map insert-a-subset-then-probe-the-grid cases; HISTORY cases for the tuple_operators "
            "types P and Q: all 108 combinations of {no first use, hash(x), insert+find in a set} x {the object, a copy made before, a copy made "
            "after the first use} x {member-wise assignment, assignment through as_tuple(), copy assignment, move assignment} x {observe the "
            "object, a copy of it, an object moved from it} x sets with 0 / 3 / 30 other elements, grid values a -> b; random choices from VERIF_SEED. "
            "A case is non-trivial when its values are not all textually identical (pair/triple), when a != b and the object was used before the "
            "change (history) resp. when something is inserted and some probe "
            "is not inserted (set/map); distinct = distinct case line")
    modelled_note = ("modelled, not verified: std::hash of leaves (instantiated from the real library per run), leaf ==/< , std::tuple/pair/variant "
                     "operators, overload resolution/ADL, std::unordered_set/map internals; pointers compare by pointee in the model")

    _table = None

    # ---- std::hash of every grid leaf, asked from the real library through the driver ----
    def table(self):
        if self._table is None:
            toks = sorted(set(k + t for g in (GRID_QUICK, GRID_THOROUGH) for k, vs in g.items() for t in vs) | set(LONG_TOKENS))
            binp = framework.build_cpp(**self.cpp)
            outs, _ = framework.run_lines(binp, ["leaf " + ";".join(toks)])
            w = outs[0].split()
            if len(w) != 2 or w[0] != "LH" or len(w[1].split(",")) != len(toks):
                raise RuntimeError("hash driver cannot report std::hash of the grid leaves: %r" % outs[0][:200])
            self._table = dict(zip(toks, w[1].split(",")))
        return self._table

    def wire(self, v):
        t = self.table()
        if v[0] == 'L':
            tok = v[1] + v[2]
            return tok + "#" + t[tok]
        if v[0] in ('T', 'O'):
            return v[0] + "(" + ",".join(self.wire(c) for c in v[1]) + ")"
        if v[0] == 'P':
            return "P(" + self.wire(v[1]) + "," + self.wire(v[2]) + ")"
        if v[0] == 'V':
            return "V%d(" % v[1] + self.wire(v[2]) + ")"
        if v[0] == 'Z':
            return "Z"
        return "U" + (v[2] if len(v) > 2 else "") + "(" + self.wire(v[1]) + ")"

    # ---- generators ----
    def related(self, sh, x, grid, rng):
        """a value related to x: copy / one leaf changed / -0.0 <-> 0.0 / two components swapped / random"""
        k = rng.random()
        paths = leaf_paths(x)
        if 'VZ' in repr(sh) and rng.random() < 0.3:
            y = self.toggle_valueless(sh, x, grid, rng)
            if y is not None:
                return y
        if "'U'" in repr(sh) and rng.random() < 0.3:
            return reform(x, rng)       # the same pointees in other ownership forms: must hash equal
        if k < 0.15 or not paths:
            return x
        if k < 0.55:
            p = rng.choice(paths)
            return replace_at(x, p, lambda l: ('L', l[1], rng.choice([t for t in grid[l[1]] if t != l[2]] or [l[2]])))
        if k < 0.65:
            zs = [p for p in paths if self.leaf_at(x, p)[2] in ('0.0', '-0.0')]
            if zs:
                p = rng.choice(zs)
                return replace_at(x, p, lambda l: ('L', l[1], '-0.0' if l[2] == '0.0' else '0.0'))
        if k < 0.8 and x[0] in ('T', 'O', 'P'):
            comps = list(x[1]) if x[0] != 'P' else [x[1], x[2]]
            shapes = list(sh[1]) if sh[0] != 'P' else [sh[1], sh[2]]
            pairs = [(i, j) for i in range(len(comps)) for j in range(i + 1, len(comps)) if shapes[i] == shapes[j]]
            if pairs:
                i, j = rng.choice(pairs)
                comps[i], comps[j] = comps[j], comps[i]
                return (x[0], comps) if x[0] != 'P' else ('P', comps[0], comps[1])
        return random_value(sh, grid, rng)

    def toggle_valueless(self, sh, x, grid, rng):
        """x with its (first) valueless-capable variant switched between valueless and holding a value"""
        if is_leaf(sh):
            return None
        if sh[0] == 'VZ':
            return random_value(('V', sh[1]), grid, rng) if x[0] == 'Z' else ('Z',)
        if sh[0] in ('T', 'O'):
            for i, c in enumerate(sh[1]):
                y = self.toggle_valueless(c, x[1][i], grid, rng)
                if y is not None:
                    l = list(x[1]); l[i] = y
                    return (x[0], l)
            return None
        if sh[0] == 'P':
            y = self.toggle_valueless(sh[1], x[1], grid, rng)
            if y is not None:
                return ('P', y, x[2])
            y = self.toggle_valueless(sh[2], x[2], grid, rng)
            return None if y is None else ('P', x[1], y)
        if sh[0] == 'U':
            y = self.toggle_valueless(sh[1], x[1], grid, rng)
            return None if y is None else ('U', y) + tuple(x[2:])
        return None

    @staticmethod
    def leaf_at(v, path):
        for i in path:
            if v[0] in ('T', 'O'):
                v = v[1][i]
            elif v[0] == 'P':
                v = v[1 + i]
            elif v[0] == 'V':
                v = v[2]
            else:
                v = v[1]
        return v

    def cases(self, tier, rng):
        # shuffled (deterministically, from VERIF_SEED) so that the expensive container cases spread over the shards
        l = list(self.gen_cases(tier, rng))
        rng.shuffle(l)
        return l

    def gen_cases(self, tier, rng):
        quick = tier == "quick"
        grid = GRID_QUICK if quick else GRID_THOROUGH
        W = self.wire
        # (i) exhaustive: all ordered pairs of P over the design grid (and of Q in the thorough tier)
        pv = all_values(P, GRID_QUICK)
        for x in pv:
            for y in pv:
                yield "p P %s %s" % (W(x), W(y)), "pair-exh-P"
        if not quick:
            qv = all_values(Q, GRID_QUICK)
            for x in qv:
                for y in qv:
                    yield "p Q %s %s" % (W(x), W(y)), "pair-exh-Q"
        # all ordered pairs of the small homogeneous types (swap sensitivity) and of the empty ones
        for t in ('TI2', 'PI2', 'T0', 'E', 'T1', 'VT', 'TI3'):
            vs = all_values(TYPES[t], grid)
            for x in vs:
                for y in vs:
                    yield "p %s %s %s" % (t, W(x), W(y)), "pair-exh-small"
        # (ii) structured + random pairs for every type
        npairs = 350 if quick else 4000
        for t, sh in TYPES.items():
            for _ in range(npairs):
                x = random_value(sh, grid, rng)
                y = self.related(sh, x, grid, rng)
                if rng.random() < 0.5:
                    x, y = y, x
                yield "p %s %s %s" % (t, W(x), W(y)), "pair-structured"
        # a copy of a shared_ptr
        for _ in range(20 if quick else 200):
            yield "a SQ %s" % W(random_value(TYPES['SQ'], grid, rng)), "alias"
        # TWINS: y = x with every outermost shared_ptr re-made, in another ownership form, from the one in x (same address, so
        # x == y in C++): equal, hash equal, found as the key x of a set / map, not accepted as a second key
        for t in SHARED_ONLY_TYPES:
            sh = TYPES[t]
            for _ in range(60 if quick else 600):
                x = random_value(sh, grid, rng)
                forms = "".join(rng.choice(TWIN_FORMS) for _ in range(rng.choice([1, 2, 2, 3])))
                yield "al %s %s %s" % (t, W(x), forms), "twin"
        # (iii) triples: all of P in the thorough tier, a sample otherwise; samples for the other comparable types
        if quick:
            for _ in range(6000):
                x, y, z = rng.choice(pv), rng.choice(pv), rng.choice(pv)
                yield "t P %s %s %s" % (W(x), W(y), W(z)), "triple-P"
        else:
            for x in pv:
                for y in pv:
                    for z in pv:
                        yield "t P %s %s %s" % (W(x), W(y), W(z)), "triple-exh-P"
        ntr = 250 if quick else 4000
        for t, sh in TYPES.items():
            if t in POINTER_TYPES or t == 'P':
                continue
            for _ in range(ntr):
                x = random_value(sh, grid, rng)
                y = self.related(sh, x, grid, rng)
                z = self.related(sh, rng.choice([x, y]), grid, rng)
                l = [x, y, z]
                rng.shuffle(l)
                yield "t %s %s %s %s" % (t, W(l[0]), W(l[1]), W(l[2])), "triple-structured"
        # (vi) LONG string components, in related pairs that differ in exactly one character (first, last, middle, 32/33 from
        # either end) or by a swap of two middle characters, inside every composite shape that has a string: equal-length
        # strings with different std::hash words must give different composite hashes (any collision in this set is a violation)
        for t in LONG_STRING_TYPES:
            sh = TYPES[t]
            for n in LONG_LENGTHS:
                if quick and n == 4096 and t not in ('S', 'P', 'T1'):
                    continue
                for name, var in long_variants(n):
                    for _ in range(60):
                        x = random_value(sh, GRID_QUICK, rng)
                        sp = [p for p in leaf_paths(x) if self.leaf_at(x, p)[1] == 's']
                        if sp:
                            break
                    else:
                        continue
                    pth = rng.choice(sp)
                    x = replace_at(x, pth, lambda l: ('L', 's', hx(long_base(n))))
                    y = replace_at(x, pth, lambda l: ('L', 's', hx(var)))
                    if rng.random() < 0.5:
                        x, y = y, x
                    yield "p %s %s %s" % (t, W(x), W(y)), "long-string"
        # (v) HISTORIES (tuple_operators types P and Q): an object built from a, used (hashed / stored in a set), brought
        # to the value b in place (member-wise, through as_tuple(), whole-object copy / move assignment), directly or
        # through a copy made before / after the first use, observed itself or through a copy / move of it, then compared
        # with a freshly built b — every combination, with no, a few and more than 20 other elements in the sets
        # (libstdc++ scans tables of <= 20 elements linearly when the hasher is not "fast")
        codes = [f + w + h + p for f in "nds" for w in "oba" for h in "mtwv" for p in "-ck"]
        reps = 1 if quick else 8
        for t in ('P', 'Q'):
            sh = TYPES[t]
            for code in codes:
                for nfill in (0, 3, 30):
                    for _ in range(reps):
                        a = random_value(sh, GRID_QUICK, rng)
                        b = self.related(sh, a, GRID_QUICK, rng) if rng.random() < 0.6 else random_value(sh, GRID_QUICK, rng)
                        if b == a and rng.random() < 0.9:
                            b = random_value(sh, GRID_QUICK, rng)
                        fill = [random_value(sh, GRID_QUICK, rng) for _ in range(nfill)]
                        if nfill and rng.random() < 0.5:
                            fill[rng.randrange(nfill)] = a      # the old value is (still) in the container
                        yield "h %s %s %s %s %s" % (t, code, W(a), W(b), ";".join(W(v) for v in fill) or "."), "history"
        # (iv) hash containers: insert a subset, probe the whole grid (or a sample of it for the big types)
        nsets = 12 if quick else 120
        for t, sh in TYPES.items():
            if t in POINTER_TYPES:
                continue
            total = count_values(sh, GRID_QUICK)
            universe = all_values(sh, GRID_QUICK) if total <= 200 else None
            for _ in range(nsets if total > 1 else 2):
                if universe is not None:
                    probes = list(universe)
                else:
                    probes = [random_value(sh, GRID_QUICK, rng) for _ in range(40)]
                    probes += [self.related(sh, p, GRID_QUICK, rng) for p in probes[:20]]
                rng.shuffle(probes)
                k = rng.choice([0, 1, 2, len(probes) // 4, len(probes) // 2, len(probes)])
                ins = [rng.choice(probes) for _ in range(k)]   # with repetitions
                kind = rng.choice(["set", "map"])
                yield "%s %s %s %s" % (kind, t, ";".join(W(v) for v in ins) or ".", ";".join(W(v) for v in probes) or "."), "container"

    def extra(self, ctx):
        coqchk_extra(self, ctx, ["Nitro.Properties.Properties_C16", "Nitro.Tie.Tie_C16"])

    # ---- bookkeeping ----
    def nontrivial(self, case, mobs, iobs):
        w = case.split()
        if w[0] == "p":
            return w[2] != w[3]
        if w[0] == "t":
            return len({w[2], w[3], w[4]}) == 3
        if w[0] == "h":
            return w[3] != w[4] and w[2][0] != "n"     # really changed, after a first use
        if w[0] == "al":
            return True
        if w[0] in ("set", "map"):
            ins = set(w[2].split(";")) if w[2] != "." else set()
            probes = set(w[3].split(";")) if w[3] != "." else set()
            return bool(ins) and bool(probes - ins)
        return False

    def signature(self, case, mobs, iobs):
        w, o = case.split(), iobs.split()
        if w[0] == "p" and len(o) >= 7:
            return ("p", w[1], o[4], o[6], o[1] == o[2])
        if w[0] == "t":
            return ("t", w[1], iobs)
        if w[0] == "h":
            n = 0 if w[5] == "." else w[5].count(";") + 1
            return ("h", w[1], w[2], min(n, 21), " ".join(o[3:10]), len(o) > 2 and o[1] == o[2])
        if w[0] in ("set", "map") and len(o) >= 2:
            return (w[0], w[1], min(int(o[1]), 6) if o[1].isdigit() else o[1])
        if w[0] == "al" and len(o) >= 4:
            return ("al", w[1], w[3], "Ua(" in w[2], o[1], o[2] == o[3])
        return (w[0], iobs[:20])

    def shrink(self, case):
        w = case.split()
        import re
        if w[0] == "h":
            vs = w[5].split(";") if w[5] != "." else []
            if vs:
                yield " ".join(w[:5] + ["."])
                yield " ".join(w[:5] + [";".join(vs[:len(vs) // 2])])
                for i in range(len(vs)):
                    yield " ".join(w[:5] + [";".join(vs[:i] + vs[i + 1:]) or "."])
        if w[0] == "al" and len(w[3]) > 1:
            for ch in sorted(set(w[3])):
                yield " ".join(w[:3] + [ch])
        if w[0] in ("p", "t", "a", "h", "al"):
            # drop an ownership form (back to make_shared / make_unique)
            for k in range(3 if w[0] == "h" else 2, 5 if w[0] == "h" else len(w)):
                for m in re.finditer(r"U[cnaouk]\(", w[k]):
                    yield " ".join(w[:k] + [w[k][:m.start()] + "U(" + w[k][m.end():]] + w[k + 1:])
            # replace one leaf by the shortest leaf of its kind
            t = self.table()
            for k in range(3 if w[0] == "h" else 2, 5 if w[0] == "h" else len(w)):
                for m in re.finditer(r"([chiulbfdsakgnmoqjewxy])([^,();#]+)#[0-9a-f]{16}", w[k]):
                    short = m.group(1) + SHORTEST[m.group(1)]
                    if len(short) < len(m.group(1) + m.group(2)):
                        yield " ".join(w[:k] + [w[k][:m.start()] + short + "#" + t[short] + w[k][m.end():]] + w[k + 1:])
        elif w[0] in ("set", "map"):
            for k in (2, 3):
                vs = w[k].split(";") if w[k] != "." else []
                for i in range(len(vs)):
                    yield " ".join(w[:k] + [";".join(vs[:i] + vs[i + 1:]) or "."] + w[k + 1:])


CHECK = C16

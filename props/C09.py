# props/C09.py — thread-safe sinks (stdout_mt / stderr_mt) emit each concurrent record once and contiguously
import os, sys
from lib.framework import Check, run_lines

TSAN_FLAGS = ["-std=gnu++17", "-O1", "-g", "-fsanitize=thread", "-fno-omit-frame-pointer", "-w"]


def csv(l):
    return ",".join(str(x) for x in l)


def nlmix(rng, dist):
    """half of the cases get the newline alphabet (upper-case dist letter): payloads with interior, double and
    trailing '\\n' and "\\r\\n"; the driver frames records by the length in the header, never by '\\n'"""
    return dist.upper() if dist != "z" and rng.random() < 0.5 else dist


class C09(Check):
    prop = "C09"
    vfiles = ["Tie/Tie_C09.v", "Properties/Properties_C09.v", "Extract/Extract_Sched.v"]
    cpp = dict(name="sched", driver_src="harness/sched_driver.cpp", libs=["-pthread"])
    ocaml = dict(name="sched", extracted="sched_model.ml", glue=("glue_base.ml",))
    corpus = "C09.txt"
    design_ref = "DESIGN.md section 6, C09 (and section 3.4 for the translator)"
    technique = ("Coq proof over an executable scheduler model (all schedules, any number of threads) + translator tie of the two sink "
                 "bodies (clang JSON AST -> Gen/GenSinks.v -> Tie_C09.v) + sampled real-thread runs against a trapping stream buffer "
                 "(ASan/UBSan and a ThreadSanitizer build, both tiers), every record checked byte for byte")
    level_text = ("Proved in Coq for ALL schedules, all thread counts, all record lists, over a model in which a sink call is the "
                  "statement list of `sink` expanded into Acquire / Enter / PutByte.. / Leave / Flush / Release slots and the stream "
                  "buffer is not thread-safe: if a guard on a mutex shared by all instances is alive at every insertion and flush, "
                  "two threads are never inside the buffer at once; at any moment the output is whole records plus at most a prefix of "
                  "the lock holder's next record; when all threads are done the output is a concatenation of whole records in which "
                  "every thread's records occur exactly once and in program order; every schedule can be continued to completion "
                  "(no deadlock); the unprotected variants are refuted by concrete schedules. That the bodies of stdout_mt::sink and "
                  "StdErrThreaded::sink have this shape is re-read from /repo by a translator on every run and re-checked "
                  "(Tie_C09.v, 8 obligations + 8 instantiated theorems). Real threads are SAMPLED, not enumerated: the C++ driver "
                  "logs from 2-32 threads through two logger types per sink into a trapping stream buffer and parses the output back")
    level_note = ("trusted: Coq kernel, extraction, OCaml, the translator gen/tr_sinks.py (reads statement kinds/order/nesting and the "
                  "storage of the mutex from clang's AST), the C++ driver and its parser; assumed, not proved: std::mutex / lock_guard / "
                  "unique_lock / scoped_lock give mutual exclusion and unlock at scope exit, `stream << std::string` is one xsputn call "
                  "on the buffer, logger::instance() (function-local static) is initialised once, the per-statement record and "
                  "stringstream are private to the logging thread (stream.hpp) — this last assumption is not in the model but is now "
                  "exercised: the `same` cases hammer one logger type and severity from all threads and the driver checks the content "
                  "of every record, and the ThreadSanitizer build watches the formatting path. The universal statement is about the model; the "
                  "implementation runs are a sample of real interleavings (schedule perturbation by yields and a dwell inside the "
                  "buffer), never all of them")
    rule = ("cases = (sink out|err) x (2..32 threads, per-thread record counts) x (payload length distribution z=0, s<=16, m<=256, "
            "l=1024..4096, x=extremes; upper-case letter = the same lengths with interior / double / trailing newlines and CR LF in the "
            "payload — records are arbitrary byte strings in the model (no lemma assumes newline-free records) and the driver frames "
            "them by the length and checksum in the header, never by a newline: any output that is not a concatenation of whole expected "
            "records is INTERLEAVED) x (mode n plain, y yield between bytes, d dwell inside the buffer) x seed: a small grid with the "
            "observed order attached (judged by the extracted valid_orderb), high-contention cases, uneven cases (idle threads), "
            "many-thread cases (9, 12, 16, 24, 32 threads, more than the cores, piling up on the sink mutex), "
            "`same` cases (all threads on ONE logger type and severity, one-expression statements with nine streamed items, up to "
            "8000 (quick) / 20000 (thorough) records per thread), corpus; a batch of each kind also on a ThreadSanitizer build (larger in the thorough tier). "
            "API-surface cases (p6: every statement tagged, tags distinct per thread and alternating, the tag printed by the formatter and checked in every emitted record; the _mt sink inside sink::sequence<> alone / twice / over both streams, records with tag, severity and "
            "thread-id attributes behind and_filter/not_filter/severity_filter with filtered-out and empty statements in between, sink "
            "objects called directly, eight statement forms incl. callable items, logger::log()/will_log(), smart_stream::sstr(), "
            "logging from a destructor during unwinding and from a catch handler, threads created/joined during the run, a forked "
            "child in which the first calls race on the static initialisations, 20000-70000 byte records, NUL / >=0x80 / "
            "metacharacter bytes, non-default stream flags). In every case each record's content (thread, seq, length, checksum, payload) is compared with the expected bytes. A case is non-trivial when at least two threads log "
            "at least one record each; distinct = distinct case line")
    modelled_note = ("modelled, not verified: std::mutex/lock_guard semantics (mutual exclusion, scope-exit unlock), one xsputn call per "
                     "inserted string, thread-safe function-local statics, privacy of the per-statement stringstream; real schedules are "
                     "sampled by the driver (not exhaustive); flush counts are not observed")

    # second implementation binary: the same driver under ThreadSanitizer (cases ending in `tsan`), both tiers
    cpps = {"tsan": dict(name="sched-tsan", driver_src="harness/sched_driver.cpp", libs=["-pthread"], flags=TSAN_FLAGS)}

    def __init__(self):
        thorough = "thorough" in sys.argv[1:] or os.environ.get("VERIF_TIER") == "thorough"
        if thorough:
            os.environ.setdefault("VERIF_CASE_TIMEOUT", "30")   # the 2000-records-per-thread cases
        self._raw = {}

    # ------------------------------------------------------------------ routing / canonicalisation
    def route(self, case):
        return "tsan" if case.endswith(" tsan") and self.cpps and "tsan" in self.cpps else None

    def normalize(self, case, obs):
        if " ORDER " in obs:
            self._raw[case] = obs
            return obs.split(" ORDER ", 1)[0]
        return obs

    # ------------------------------------------------------------------ generators
    def cases(self, tier, rng):
        quick = tier == "quick"
        sinks = ["out", "err"]
        # (i) small grid, observed order attached
        for rep in range(1 if quick else 12):
            for sink in sinks:
                for n in ((2, 5, 8) if quick else (2, 3, 5, 8)):
                    for dist in "zsm":
                        for mode in "nyd":
                            counts = [rng.randint(1, 6) for _ in range(n)]
                            yield "%s %s %s %s %d ord" % (sink, csv(counts), nlmix(rng, dist), mode, rng.randint(0, 99999)), "grid-small-ord"
        # (ii) contention: many records, long payloads
        for rep in range(1 if quick else 10):
            for sink in sinks:
                for n in (2, 4, 8):
                    for dist in "mlx":
                        for mode in (rng.choice("ny") if quick else "ny"):
                            hi = 150 if quick else rng.choice([200, 600, 2000 if dist == "m" else 800])
                            counts = [rng.randint(hi // 3, hi) for _ in range(n)]
                            yield "%s %s %s %s %d" % (sink, csv(counts), nlmix(rng, dist), mode, rng.randint(0, 99999)), "contention"
        # (iii) uneven: idle threads, one busy thread, dwell with several threads
        for sink in sinks:
            for _ in range(4 if quick else 20):
                n = rng.randint(2, 8)
                counts = [rng.choice([0, 1, 2, 30]) for _ in range(n)]
                yield "%s %s %s %s %d ord" % (sink, csv(counts), rng.choice("zsmx"), rng.choice("nyd"), rng.randint(0, 99999)), "uneven-ord"
        # (iv) `same`: all threads on ONE logger type and ONE severity, one-expression statements with nine streamed
        #      items, high volume, short records — aimed at state a logger type shares between statements (the
        #      per-statement record/stringstream must be private); the content of every record is checked
        for rep in range(1 if quick else 4):
            for sink in sinks:
                for n, per in (((2, 8000), (4, 4000), (6, 3000), (8, 2000)) if quick else ((2, 20000), (4, 10000), (6, 8000), (8, 5000))):
                    for dist in "zsm":
                        per2 = per // 4 if dist == "m" else per
                        counts = [rng.randint(per2 // 2, per2) for _ in range(n)]
                        yield "%s %s %s n %d same" % (sink, csv(counts), nlmix(rng, dist), rng.randint(0, 99999)), "same-logger-volume"
                yield "%s %s s y %d same" % (sink, csv([1500] * 4), rng.randint(0, 99999)), "same-logger-volume"
                yield "%s %s s d %d ord same" % (sink, csv([rng.randint(2, 9) for _ in range(3)]), rng.randint(0, 99999)), "same-logger-volume"
        # (iv-b) more threads than the 2..8 of the grids (and than the 16 cores): 9..32 threads pile up on the sink's mutex,
        #        so many threads are inside logger::log() at once — aimed at anything that counts or limits concurrent callers
        for rep in range(1 if quick else 4):
            for sink in sinks:
                for n in (9, 12, 16, 24, 32):
                    per = rng.randint(80, 200)
                    yield "%s %s %s y %d same" % (sink, csv([per] * n), rng.choice("mlML"), rng.randint(0, 99999)), "many-threads"
                    yield "%s %s %s %s %d" % (sink, csv([rng.randint(40, 120) for _ in range(n)]), rng.choice("smlSML"), rng.choice("ny"), rng.randint(0, 99999)), "many-threads"
                for n in (9, 16, 32):
                    yield "%s %s m y %d same tsan" % (sink, csv([rng.randint(40, 100)] * n), rng.randint(0, 99999)), "tsan-many-threads"
                yield "%s %s s n %d tsan" % (sink, csv([60] * 24), rng.randint(0, 99999)), "tsan-many-threads"
        # (iv-d) API surface: the ways a record can reach an _mt sink and the contexts it can be logged from
        #   p1 _mt sink inside sink::sequence<>   p2 sequence<X_mt, X_mt> (every record exactly twice)   p3 sequence over
        #   both streams (both trapped; cerr untied, see the driver)   p4 record with tag/severity/thread-id attributes
        #   behind and_filter<severity_filter, not_filter<..>> with filtered-out statements in between   p5 sink objects
        #   owned by the threads and called directly;  wave = threads created and joined by other threads during the
        #   run;  fresh = forked child where the first calls race on logger::instance() and the static mutex;
        #   h/H = payloads of 20000..70000 bytes
        for rep in range(1 if quick else 5):
            for sink in sinks:
                for prof in ("p1", "p2", "p3", "p4", "p5", "p6"):
                    n = rng.choice([3, 4, 6, 9])
                    yield "%s %s %s %s %d %s" % (sink, csv([rng.randint(40, 160) for _ in range(n)]), rng.choice("smSM"), rng.choice("nyd"),
                                                 rng.randint(0, 99999), prof), "api-profile"
                    n = rng.choice([2, 5, 12])
                    yield "%s %s %s %s %d %s %s" % (sink, csv([rng.randint(20, 80) for _ in range(n)]), rng.choice("smlL"), rng.choice("ny"),
                                                    rng.randint(0, 99999), prof, rng.choice(["wave", "fresh", "wave fresh"])), "api-profile"
                yield "%s %s %s n %d wave" % (sink, csv([rng.randint(50, 200) for _ in range(7)]), rng.choice("sM"), rng.randint(0, 99999)), "api-threads"
                yield "%s %s s n %d same wave" % (sink, csv([1500] * 6), rng.randint(0, 99999)), "api-threads"
                yield "%s %s s d %d ord fresh" % (sink, csv([rng.randint(2, 8) for _ in range(4)]), rng.randint(0, 99999)), "api-threads"
                yield "%s %s m n %d same fresh" % (sink, csv([300] * 8), rng.randint(0, 99999)), "api-threads"
                yield "%s %s %s %s %d" % (sink, csv([rng.randint(3, 8) for _ in range(4)]), rng.choice("hH"), rng.choice("ny"), rng.randint(0, 99999)), "api-huge-record"
                # per-thread distinct tags, the tag of every emitted record checked: volume on the plain build, a batch under TSan
                yield "%s %s s n %d p6" % (sink, csv([rng.randint(1200, 2000) for _ in range(4)]), rng.randint(0, 99999)), "api-thread-tags"
                yield "%s %s %s %s %d p6 ord" % (sink, csv([rng.randint(2, 9) for _ in range(3)]), rng.choice("sm"), rng.choice("nyd"), rng.randint(0, 99999)), "api-thread-tags"
                yield "%s %s s n %d p6 tsan" % (sink, csv([rng.randint(100, 300) for _ in range(rng.choice([2, 4, 8]))]), rng.randint(0, 99999)), "tsan-api"
                for prof in ("p2", "p3", "p4", "p5", "p6"):
                    yield "%s %s %s y %d %s %s tsan" % (sink, csv([rng.randint(20, 60) for _ in range(4)]), rng.choice("sM"), rng.randint(0, 99999), prof,
                                                        rng.choice(["wave", "fresh"])), "tsan-api"
        # (iv-c) payloads containing line terminators, every length class, `same` and mixed loggers, plain and TSan build:
        #        a record must stay one contiguous run whatever bytes it contains
        for rep in range(1 if quick else 6):
            for sink in sinks:
                for dist in "SMLX":
                    n = rng.choice([2, 4, 8, 12])
                    yield "%s %s %s %s %d same" % (sink, csv([rng.randint(100, 400)] * n), dist, rng.choice("ny"), rng.randint(0, 99999)), "newline-payload"
                    yield "%s %s %s %s %d" % (sink, csv([rng.randint(60, 300) for _ in range(n)]), dist, rng.choice("ny"), rng.randint(0, 99999)), "newline-payload"
                yield "%s %s S n %d same tsan" % (sink, csv([400] * 4), rng.randint(0, 99999)), "tsan-newline-payload"
                yield "%s %s M y %d tsan" % (sink, csv([150] * 6), rng.randint(0, 99999)), "tsan-newline-payload"
        # (v) a batch on the ThreadSanitizer build in the quick tier as well (volumes kept small: a racy tree makes
        #     TSan report on every access)
        if quick:
            for sink in sinks:
                for n, per in ((2, 3000), (4, 1500), (8, 600)):
                    counts = [rng.randint(per // 2, per) for _ in range(n)]
                    yield "%s %s s n %d same tsan" % (sink, csv(counts), rng.randint(0, 99999)), "tsan-same"
                    counts = [rng.randint(20, 120) for _ in range(n)]
                    yield "%s %s %s %s %d tsan" % (sink, csv(counts), rng.choice("sm"), rng.choice("nyd"), rng.randint(0, 99999)), "tsan"
        if not quick:
            # (vi) the upper end of the design's range: 2000 records per thread, payloads up to 4096 bytes
            for sink in sinks:
                yield "%s %s l n %d" % (sink, csv([2000] * 4), rng.randint(0, 99999)), "huge"
                yield "%s %s m y %d" % (sink, csv([2000] * 8), rng.randint(0, 99999)), "huge"
                yield "%s %s l y %d" % (sink, csv([2000] * 8), rng.randint(0, 99999)), "huge"
            # (vii) the same kinds on the ThreadSanitizer build
            for rep in range(8):
                for sink in sinks:
                    for n in (2, 3, 8):
                        for dist in "zsml":
                            for mode in "nyd":
                                hi = rng.choice([6, 60, 300])
                                counts = [rng.randint(1, hi) for _ in range(n)]
                                yield "%s %s %s %s %d tsan" % (sink, csv(counts), dist, mode, rng.randint(0, 99999)), "tsan"
            for rep in range(10):
                for sink in sinks:
                    for n, per in ((2, 3000), (4, 1500), (8, 600)):
                        counts = [rng.randint(per // 2, per) for _ in range(n)]
                        yield "%s %s %s n %d same tsan" % (sink, csv(counts), rng.choice("zsm"), rng.randint(0, 99999)), "tsan-same"

    def tie_break_cases(self, coqres):
        """Tie_C09 (or a theorem over Gen/GenSinks.v) no longer checks: the model's witness is `two threads enter the
        buffer before either leaves`; on real threads that is provoked with 8 threads, long records, yields between
        bytes and the dwell inside the buffer"""
        out = []
        for sink in ("out", "err"):
            for k, (dist, mode) in enumerate([("l", "y"), ("l", "d"), ("m", "d"), ("s", "d"), ("m", "y"), ("x", "y"), ("l", "n")]):
                out.append("%s %s %s %s %d" % (sink, csv([60] * 8), dist, mode, 1000 + k))
            out.append("%s 8,8 s d 77" % sink)
            out.append("%s 20,20,20 m d 78" % sink)
        return out

    # ------------------------------------------------------------------ evidence bookkeeping
    def nontrivial(self, case, mobs, iobs):
        w = case.split()
        return sum(1 for c in w[1].split(",") if int(c) > 0) >= 2

    def signature(self, case, mobs, iobs):
        w = case.split()
        cs = [int(c) for c in w[1].split(",")]
        return (w[0], len(cs), w[2], w[3], min(max(cs) // 50, 4), " ".join(sorted(f for f in w[5:] if f != "ord")), iobs.split(" ", 1)[0])

    def shrink(self, case):
        w = case.split()
        cs = [int(c) for c in w[1].split(",")]
        tail = w[2:]
        if len(cs) > 2:
            for i in range(len(cs)):
                yield " ".join([w[0], csv(cs[:i] + cs[i + 1:])] + tail)
        if max(cs) > 1:
            yield " ".join([w[0], csv([max(1, c // 2) if c else 0 for c in cs])] + tail)
        for d in "sm":
            if w[2].lower() in "lx" or (w[2].lower() == "m" and d == "s"):
                yield " ".join([w[0], w[1], d.upper() if w[2].isupper() else d] + w[3:])

    def extra(self, ctx):
        cov = ctx.setdefault("coverage_extra", {})
        model = ctx.get("model")
        if not model:
            return
        # the order observed from the real threads, judged by the extracted checker (valid_orderb = the spec, proved)
        raw = sorted(self._raw.items())
        if raw:
            verdicts, _ = run_lines(model, ["%s\t%s" % (c, o) for c, o in raw], args=("oracle",))
            bad = [(c, o) for (c, o), v in zip(raw, verdicts) if v != "1"]
            cov["observed_orders_checked_by_extracted_valid_orderb"] = len(raw)
            cov["observed_orders_rejected"] = len(bad)
            if bad:
                c, o = min(bad, key=lambda t: len(t[0]))
                ctx["violations"].append(("", dict(property=self.prop, kind="concrete", case=c, impl_obs=o[:2000], model_obs="OK " + c.split()[1],
                                                   oracle="the extracted valid_orderb (exactly once, program order) rejects the order observed from the real threads",
                                                   n_failing=len(bad), seed=ctx["seed"], tier=ctx["tier"])))
        # how the translator read the two bodies today, and whether the model goes wrong on that reading
        try:
            w, _ = run_lines(model, ["witness"], args=("model",))
            cov["translator_reading"] = w[0]
        except Exception as e:  # evidence only
            cov["translator_reading"] = "unavailable: %r" % e
        cov["real_thread_runs_are_a_sample"] = True
        if True:
            cov["tsan_build"] = "g++ -fsanitize=thread, cases ending in `tsan`; a ThreadSanitizer report during a case is the observation RACE"


CHECK = C09

# props/C11.py — a toggle counts its occurrences; reversal and env words follow fixed rules
import itertools
from props.opt_common import *

TRUTHY = ["true", "True", "TRUE", "on", "On", "ON", "yes", "Yes", "YES", "with", "With", "WITH", "y", "Y", "1"]
FALSY = ["false", "False", "FALSE", "off", "Off", "OFF", "no", "No", "NO", "without", "Without", "WITHOUT", "n", "N", "0"]

def case_variants(w):
    if len(w) > 7:
        return
    for bits in itertools.product([0, 1], repeat=len(w)):
        yield "".join(c.upper() if b else c.lower() for c, b in zip(w, bits))

def near_misses(w):
    alpha = "aeinoty01 "
    for i in range(len(w) + 1):
        for c in alpha:
            yield w[:i] + c + w[i:]
    for i in range(len(w)):
        yield w[:i] + w[i + 1:]
        for c in alpha:
            yield w[:i] + c + w[i + 1:]

class C11(OptCheck):
    prop = "C11"
    vfiles = ["Properties/Properties_C11.v", "Tie/Tie_C11.v", "Tie/Tie_C03.v"]
    corpus = "C11.txt"
    oracle_args = ("oracle", "C11")
    design_ref = "DESIGN.md section 6, C11"
    technique = "Coq proof on the spec's assignment (count = occurrences, reversal, polarity clash, closed vocabulary) transferred by refinement + translator-regenerated vocabulary table with Tie obligations + differential run over all case variants and one-edit near misses"
    level_text = 'Theorems: count = first source of [occurrences; negation; environment word; default], reversal only for reversible toggles, both polarities rejected, vocabulary closed (env_word w = Some b iff w in the 15+15 documented words), bad word = user error; Tie_C11 re-proves on every run that the word table read by clang from toggle::parse_env_value computes exactly that vocabulary for every word'
    level_note = "trusted: Coq kernel; ExtrOcamlBasic extraction + OCaml; the differential harness (generators, C++ driver through the public API under ASan/UBSan, canonical observation lines); gen/tr_vocab.py for C11. Theorem hypotheses: wf_decl (names non-empty, no '=', not starting with '-', pairwise distinct; letters neither '-' nor '='), no_clash (known finding K1: no toggle foo next to anything called no-foo), aligned state (every reachable state is: C14_reachable_aligned). Modelled, not verified: std::map name order, std::multiset::count on letters, std::getline at ';', getenv, object lifetimes, int overflow of counts (model uses Z), operator>> for typed access (exercised with as<long> on decimal texts only). The tie model=code is bounded-exhaustive + sampled, not proved"
    rule = ("core stream (exhaustive short vectors over declaration-relative tokens for 12 declaration shapes; random vectors, random declarations and environments; 'steps' histories on ONE long-lived parser object — several calls, environment changes, further declarations, move construction, move assignment from a differently declared parser — each call also made on a freshly built identical parser; declarations spread over named groups in a hash-derived order) + toggle stream: declarations {short or not} x {reversible or not} x {default 0,1,3} x {env bound or not}; occurrence "
            "patterns over long, short, repeated letters, bundles with another toggle, --no- forms in all orders up to length 3; environment "
            "words: the 30 documented ones, every case variant of each, every one-edit near miss, random strings; "
            "non-trivial = token or environment present; distinct = distinct case line")

    def tie_break_cases(self, coqres):
        # words the translator read from toggle::parse_env_value that are not in the documented vocabulary (and vice versa)
        import os, re
        from lib.framework import COQ
        out = []
        try:
            txt = open(os.path.join(COQ, "theories", "Gen", "GenVocab.v")).read()
            words = set(bytes.fromhex(h).decode("latin-1") for h in re.findall(r"\(\* hex:([0-9a-f]*) \*\)", txt))
        except OSError:
            words = set()
        d = Decl([], [], [("verbose", "v", "N_T", 0, False)], 0, False)
        for w in sorted(words.symmetric_difference(set(TRUTHY + FALSY))):
            out.append(case(d, [("N_T", w)], [[]]))
        return out

    def cases(self, tier, rng):
        yield from core_stream(tier, rng, 3000 if tier == "quick" else 30000)
        for short, rev, dflt, bound in itertools.product([None, "v"], [0, 1], [0, 1, 3], [0, 1]):
            t = ("verbose", short, "N_T" if bound else None, dflt, bool(rev))
            d = Decl([("out", "o", None, None, True)], [], [t, ("all", "a", None, 0, True)], 1, False)
            toks = ["--verbose", "--no-verbose", "--all", "--no-all", "-a", "x"]
            if short:
                toks += ["-v", "-vv", "-va", "-av", "-vav"]
            envs = [[]] + ([[("N_T", "1")], [("N_T", "off")], [("N_T", "maybe")], [("N_T", "")]] if bound else [])
            for n in range(0, 4 if tier == "thorough" else 3):
                for argv in itertools.product(toks, repeat=n):
                    for env in envs:
                        yield case(d, env, [list(argv)]), "toggle-patterns"
        # the K1 configuration (toggle a next to a toggle called no-a): outside the theorems' hypothesis no_clash, but the
        # model follows the code there too — the token --no-a updates BOTH toggles, in name order
        for rev_a, rev_n, sa, sn in itertools.product([False, True], [False, True], [None, "a"], [None, "n"]):
            d1 = Decl([], [], [("a", sa, None, 0, rev_a), ("no-a", sn, None, 0, rev_n)], 0, False)
            toks = ["--a", "--no-a", "--no-no-a"] + (["-a"] if sa else []) + (["-n"] if sn else []) + (["-an", "-na"] if sa and sn else [])
            for n in range(1, 4):
                for argv in itertools.product(toks, repeat=n):
                    yield case(d1, [], [list(argv)]), "k1-configuration"
        for nm in ["xray", "color", "b"]:
            d1 = Decl([], [], [(nm, None, None, 0, True), ("no-" + nm, None, None, 0, False), ("v", "v", None, 0, False)], 0, False)
            toks = ["--" + nm, "--no-" + nm, "-v"]
            for n in range(1, 4):
                for argv in itertools.product(toks, repeat=n):
                    yield case(d1, [], [list(argv)]), "k1-configuration"
        d = Decl([], [], [("verbose", "v", "N_T", 0, False), ("color", None, "N_C", 1, True)], 0, False)
        words = set(TRUTHY + FALSY)
        for w in TRUTHY + FALSY:
            words.update(case_variants(w))
            words.update(near_misses(w))
        for w in sorted(words):
            if "\x00" in w:
                continue
            yield case(d, [("N_T", w)], [[]]), "env-words"
            yield case(d, [("N_C", w)], [[]]), "env-words"
        yield case(d, [("N_T", "1")], [["-v"]]), "env-vs-cmd"
        yield case(d, [("N_T", "maybe")], [["-v"]]), "env-vs-cmd"
        yield case(d, [("N_C", "maybe")], [["--no-color"]]), "env-vs-cmd"
        for _ in range(2000 if tier == "quick" else 20000):
            w = "".join(rng.choice("tTrRuUeEoOnNfFaAlLsSyY01 wWiIhH") for _ in range(rng.randint(1, 7)))
            yield case(d, [("N_T", w)], [[]]), "env-random"

CHECK = C11

# props/C12.py — positionals: `--`, greedy mode, the accepted count and negative indices
import itertools
from props.opt_common import *

class C12(OptCheck):
    prop = "C12"
    vfiles = ["Properties/Properties_C12.v", "Tie/Tie_C04.v"]
    corpus = "C12.txt"
    oracle_args = ("oracle", "C12")
    design_ref = "DESIGN.md section 6, C12"
    technique = "Coq proof (everything after the first -- is positional verbatim, greedy rest, limit, negative indices) + differential run enumerating limits x greedy x -- positions x indices"
    level_text = 'Theorems on the parser loop: positional-only mode takes every remaining token verbatim in order and fails only on the accepted count; -- switches to it; greedy rest; limit respected; negative-index arithmetic of arguments::get(int) incl. both out-of-range ends; spec side via assignment. Differential enumeration of limits x greedy x -- positions x indices'
    level_note = "trusted: Coq kernel; ExtrOcamlBasic extraction + OCaml; the differential harness (generators, C++ driver through the public API under ASan/UBSan, canonical observation lines); gen/tr_vocab.py for C11. Theorem hypotheses: wf_decl (names non-empty, no '=', not starting with '-', pairwise distinct; letters neither '-' nor '='), no_clash (known finding K1: no toggle foo next to anything called no-foo), aligned state (every reachable state is: C14_reachable_aligned). Modelled, not verified: std::map name order, std::multiset::count on letters, std::getline at ';', getenv, object lifetimes, int overflow of counts (model uses Z), operator>> for typed access (exercised with as<long> on decimal texts only). The tie model=code is bounded-exhaustive + sampled, not proved"
    rule = ("core stream (exhaustive short vectors over declaration-relative tokens for 12 declaration shapes; random vectors, random declarations and environments; 'steps' histories on ONE long-lived parser object — several calls, environment changes, further declarations, move construction, move assignment from a differently declared parser — each call also made on a freshly built identical parser; declarations spread over named groups in a hash-derived order) + positional stream: accepted counts {0,1,2,3,unlimited} x greedy on/off x all vectors of length <= 4 (quick 3) over "
            "{value, second value, declared option with value, toggle, --, -, ---x, -=x, --unknown, empty string}; every result is read through "
            "get(i)/operator[] for all i in [-n-1, n]; non-trivial = at least one token; distinct = distinct case line")

    def cases(self, tier, rng):
        yield from core_stream(tier, rng, 3000 if tier == "quick" else 30000)
        toks = ["x", "y", "--out=o", "-v", "--", "-", "---x", "-=x", "--unknown", "", "--out"]
        for allowed, greedy in itertools.product([0, 1, 2, 3, None], [False, True]):
            d = Decl([("out", "o", None, None, True)], [], [("verbose", "v", None, 0, False)], allowed, greedy)
            for n in range(0, 4 if tier == "quick" else 5):
                for argv in itertools.product(toks, repeat=n):
                    yield case(d, [], [list(argv)]), "positional-exh"
        for _ in range(2000 if tier == "quick" else 20000):
            d = Decl([("out", "o", None, None, True)], [("inc", "i", None, None, True)], [("verbose", "v", None, 0, False)],
                     rng.choice([0, 1, 2, 3, 5, None]), rng.random() < 0.4)
            argv = [rng.choice(toks + VALUES + ["--inc", "-i=1"]) for _ in range(rng.randint(0, 9))]
            yield case(d, [], [argv]), "positional-rand"

CHECK = C12

# props/C03.py — value sources are ranked: command line, then environment, then default
import itertools
from props.opt_common import *

ENVS = ["dflt", "d1;d2", "d1", "x", "-5", "--a=b", "-", "--", "a=b", "=", "a;b", ";", "a;;b;", ";;", "a b", "\n", "\xc3\xa4", "-v", "--out", "0", "1",
        "true", "True", "TRUE", "on", "yes", "with", "y", "Y", "false", "off", "no", "without", "n", "N", "maybe", "tRUE", "yes ", " no", "2", "oN"]

class C03(OptCheck):
    prop = "C03"
    vfiles = ["Properties/Properties_C03.v", "Tie/Tie_C03.v"]
    corpus = "C03.txt"
    oracle_args = ("oracle", "C03")
    design_ref = "DESIGN.md section 6, C03"
    technique = "Coq proof: the result value of every option kind is the first available of [command line; non-empty bound environment value; default], provided iff command line or environment (on the spec's assignment, transferred by refinement) + exhaustive matrix differential run"
    level_text = "Theorems on the spec's assignment (ranking clauses for the three kinds, required-missing iff, provided iff command line or environment) transferred to the parser by parse_refines; the full 96-cell matrix x 38 environment strings is run differentially in both tiers"
    level_note = "trusted: Coq kernel; ExtrOcamlBasic extraction + OCaml; the differential harness (generators, C++ driver through the public API under ASan/UBSan, canonical observation lines); gen/tr_vocab.py for C11. Theorem hypotheses: wf_decl (names non-empty, no '=', not starting with '-', pairwise distinct; letters neither '-' nor '='), no_clash (known finding K1: no toggle foo next to anything called no-foo), aligned state (every reachable state is: C14_reachable_aligned). Modelled, not verified: std::map name order, std::multiset::count on letters, std::getline at ';', getenv, object lifetimes, int overflow of counts (model uses Z), operator>> for typed access (exercised with as<long> on decimal texts only). The tie model=code is bounded-exhaustive + sampled, not proved"
    rule = ("core stream (exhaustive short vectors over declaration-relative tokens for 12 declaration shapes; random vectors, random declarations and environments; 'steps' histories on ONE long-lived parser object — several calls, environment changes, further declarations, move construction, move assignment from a differently declared parser — each call also made on a freshly built identical parser; declarations spread over named groups in a hash-derived order) + the full matrix {given on the command line or not} x {environment variable unbound, unset, set empty, set to each of "
            "38 strings (dash-led, with '=' and ';', empty pieces, vocabulary words and near misses)} x {default declared or not} x {optional "
            "or required} x {option, multi-option, toggle}; non-trivial = environment bound or something given; distinct = distinct case line")

    def cases(self, tier, rng):
        yield from core_stream(tier, rng, 3000 if tier == "quick" else 30000)
        for given, bound, hasdef, optional in itertools.product([0, 1], [0, 1], [0, 1], [0, 1]):
            envs = [None] if not bound else [None, ""] + ENVS
            for ev in envs:
                env = [] if ev is None or not bound else [("N_X", ev)]
                en = "N_X" if bound else None
                d = Decl([("out", "o", en, "dflt" if hasdef else None, bool(optional))], [], [("verbose", "v", None, 0, False)], 1, False)
                for argv in ([["--out=cmd"], ["-o", "cmd"], ["--out="], ["-o="], ["--out=dflt"]] if given else [[], ["-v"]]):
                    yield case(d, env, [argv]), "matrix-option"
                d = Decl([], [("inc", "i", en, ["d1", "d2"] if hasdef else None, bool(optional))], [("verbose", "v", None, 0, False)], 1, False)
                for argv in ([["--inc=c1", "-i", "c2"], ["--inc="], ["--inc=d1", "-i=d2"], ["-i", "d1"]] if given else [[], ["-v"]]):
                    yield case(d, env, [argv]), "matrix-multi"
                for rev in (0, 1):
                    d = Decl([("out", "o", None, None, True)], [], [("verbose", "v", en, (2 if optional else 1) if hasdef else 0, bool(rev))], 1, False)
                    for argv in ([["--verbose"], ["-vv"], ["--no-verbose"]] if given else [[], ["--out=x"]]):
                        yield case(d, env, [argv]), "matrix-toggle"
        # empty default list, empty default string, several bound options at once
        for ev in [None, "", "e1;e2", ";"]:
            env = [] if ev is None else [("N_X", ev), ("N_Y", ev)]
            d = Decl([("out", "o", "N_Y", "", False)], [("inc", "i", "N_X", [], False)], [], 0, False)
            yield case(d, env, [[]]), "matrix-emptydefault"
            yield case(d, env, [["--inc", "z"]]), "matrix-emptydefault"

CHECK = C03

# props/C15.py — usage text of nitro::options::parser (parser::usage, group::usage, base::format, format_padded)
import itertools
import os
from lib.framework import Check, run_lines, load_known


def hx(s):
    return s.encode("latin-1").hex() if s else "-"


def unhx(h):
    return "" if h == "-" else bytes.fromhex(h).decode("latin-1")


def wl(l):
    return ",".join(hx(x) for x in l) if l else "."


K2_MATCHER = "verbatim_about_or_group_description"


# ---------------------------------------------------------------------------- case <-> structure

def enc_opt(o):
    if o["kind"] in "rk":
        v = o.get("setdefault")
        dflt = "n" if v is None else ("s" + hx(v) if isinstance(v, str) else ("l" + wl(v) if isinstance(v, list) else
                                      (("1" if v else "0") if isinstance(v, bool) else "i%d" % v)))
    elif o["kind"] == "o":
        dflt = "n" if o["default"] is None else "s" + hx(o["default"])
    elif o["kind"] == "m":
        dflt = "n" if o["default"] is None else "l" + wl(o["default"])
    else:
        dflt = ("1" if o["default"] else "0") if isinstance(o["default"], bool) else "i%d" % o["default"]
    return ":".join([o["kind"].upper() if o.get("late") else o["kind"], str(o["group"]), hx(o["name"]), hx(o["short"]) if o["short"] else "-", hx(o["descr"]),
                     hx(o["env"]), hx(o["metavar"]), dflt, "1" if o["flag"] else "0",
                     "-" if o["rank"] is None else str(o["rank"])])


def dec_opt(w):
    f = w.split(":")
    late = f[0].isupper()
    f[0] = f[0].lower()
    o = dict(kind=f[0], late=late, group=int(f[1]), name=unhx(f[2]), short=None if f[3] == "-" else unhx(f[3]), descr=unhx(f[4]),
             env=unhx(f[5]), metavar=unhx(f[6]), flag=f[8] == "1", rank=None if f[9] == "-" else int(f[9]))
    if f[0] in "rk":
        o["default"] = None
        o["setdefault"] = (None if f[7] == "n" else unhx(f[7][1:]) if f[7][0] == "s" else
                           ([] if f[7][1:] == "." else [unhx(x) for x in f[7][1:].split(",")]) if f[7][0] == "l" else
                           int(f[7][1:]) if f[7][0] == "i" else f[7] == "1")
    elif f[0] == "o":
        o["default"] = None if f[7] == "n" else unhx(f[7][1:])
    elif f[0] == "m":
        o["default"] = None if f[7] == "n" else ([] if f[7][1:] == "." else [unhx(x) for x in f[7][1:].split(",")])
    else:
        o["default"] = int(f[7][1:]) if f[7][0] == "i" else f[7] == "1"
    return o


def enc_case(c):
    groups = ",".join(hx(g[0]) + ":" + hx(g[1]) + (":L" if len(g) > 2 and g[2] else "") for g in c["groups"]) if c["groups"] else "."
    pos = "0" if not c["pos"] else ("1" if c.get("posamt") is None else "a%d" % c["posamt"])
    parts = [c.get("hist") or "", c.get("fmt") or "", c.get("style") or ""]
    while parts and not parts[-1]:
        parts.pop()
    pos = ":".join([pos] + parts)
    return " ".join(["U", hx(c["app"]), hx(c["about"]), hx(c["defname"]), pos, hx(c["posname"]),
                     hx(c["prior"]), groups] + [enc_opt(o) for o in c["opts"]])


def dec_case(line):
    w = line.split(" ")
    groups = [] if w[7] == "." else [(unhx(g.split(":")[0]), unhx(g.split(":")[1]), g.endswith(":L")) for g in w[7].split(",")]
    pos, hist, fmt, style = (w[4].split(":") + ["", "", ""])[:4]
    posamt = int(pos[1:]) if pos.startswith("a") else None
    return dict(app=unhx(w[1]), about=unhx(w[2]), defname=unhx(w[3]), pos=pos not in ("0", "a0"), posamt=posamt, hist=hist, fmt=fmt, style=style,
                posname=unhx(w[5]), prior=unhx(w[6]),
                groups=groups, opts=[dec_opt(x) for x in w[8:]])


def is_long_toggle(o):
    return o["kind"] == "t" and (not o["short"] or o["flag"])


def rerank(opts, rng=None):
    """give the long toggles ranks 0..k-1 (keeping the relative order of existing ranks, or shuffled by rng)"""
    longs = [o for o in opts if is_long_toggle(o)]
    if rng is not None:
        order = list(range(len(longs)))
        rng.shuffle(order)
        for o, r in zip(longs, order):
            o["rank"] = r
    else:
        longs.sort(key=lambda o: (o["rank"] is None, o["rank"]))
        for r, o in enumerate(longs):
            o["rank"] = r
    for o in opts:
        if not is_long_toggle(o):
            o["rank"] = None
    return opts


def k2_lines(c):
    """over-long lines that parser::usage writes verbatim: lines of the about text and of the descriptions of
    the groups that are printed (a group without options is not printed)"""
    out = []
    if c["about"]:
        out += [l for l in c["about"].split("\n") if len(l) > 80]
    for gi, g in enumerate(c["groups"]):
        gd = g[1]
        if gd and any(o["group"] == gi + 1 for o in c["opts"]):
            out += [l for l in gd.split("\n") if len(l) > 80]
    return out


def is_malformed(line):
    """declarations outside the domain of the model (the declaration API raises parser_error, or silently merges):
    duplicate option names, duplicate or reserved group names, empty metavar, a short name that is not one byte"""
    if not line.startswith("U "):
        return False
    try:
        c = dec_case(line)
    except (ValueError, IndexError):
        return True
    names = [o["name"] for o in c["opts"] if o["kind"] not in "rk"]
    gnames = [g[0] for g in c["groups"]]
    order = [o for o in c["opts"] if not o.get("late")] + [o for o in c["opts"] if o.get("late")]
    seen = {}
    for o in order:
        if o["kind"] not in "rk":
            seen.setdefault(o["name"], o)
        elif o["name"] not in seen or seen[o["name"]]["group"] != o["group"]:
            return True
    return (len(set(names)) != len(names) or len(set(gnames)) != len(gnames) or "__default" in gnames
            or any(o["metavar"] == "" for o in c["opts"] if o["kind"] not in "rk") or any(o["short"] is not None and len(o["short"]) != 1 for o in c["opts"]))


def toks(s):
    return s.replace("\t", " ").replace("\n", " ").split(" ")


def text_of(obs):
    w = obs.split(" ")
    if len(w) == 2 and w[0] in ("T", "F"):
        try:
            return unhx(w[1])
        except ValueError:
            return None
    return None


# ---------------------------------------------------------------------------- generators

LETTERS = "abcdefghijklmnopqrstuvwxyz"
NAMECH = LETTERS + "0123456789-_"
SPECIAL_WORD_LENGTHS = [39, 40, 41, 79, 80, 81, 71, 72, 73, 38]


def gen_word(rng, n=None):
    if n is None:
        n = rng.choice([1, 2, 3, 4, 5, 6, 7, 8, 9, 12]) if rng.random() < 0.93 else rng.choice(SPECIAL_WORD_LENGTHS)
    w = "".join(rng.choice(LETTERS + "ABC.,-()'") for _ in range(n))
    if n >= 3 and rng.random() < 0.06:
        i = rng.randrange(1, n - 1)
        w = w[:i] + "\t" + w[i + 1:]
    return w


def gen_text(rng, maxwords=40, newline_p=0.0):
    n = rng.choice([0, 1, 2, 5, 8, 12, 20, 30, 40]) if maxwords >= 40 else rng.randint(0, maxwords)
    parts = []
    for i in range(n):
        parts.append(gen_word(rng))
        if i + 1 < n:
            r = rng.random()
            parts.append("  " if r < 0.05 else ("   " if r < 0.07 else ("\n" if r < 0.07 + newline_p else " ")))
    s = "".join(parts)
    r = rng.random()
    if r < 0.05:
        s += " "
    elif r < 0.08:
        s = " " + s
    elif r < 0.10:
        s += "  "
    return s


def gen_name(rng, used):
    while True:
        r = rng.random()
        n = rng.randint(1, 8) if r < 0.75 else rng.randint(9, 30)
        name = rng.choice(LETTERS) + "".join(rng.choice(NAMECH) for _ in range(n - 1))
        if used and rng.random() < 0.15:
            base = rng.choice(sorted(used))
            name = rng.choice([base + rng.choice(LETTERS), base[:max(1, len(base) - 1)], "no-" + base])[:30]
        if rng.random() < 0.05:
            name = (name + rng.choice(["{}", "%", "%d", "$", "\xe4", "\xfc\xdf", "{0}", "."]))[:30]
        if name not in used and name != "__default":
            used.add(name)
            return name


def gen_short(rng):
    r = rng.random()
    if r < 0.45:
        return None
    if r < 0.95:
        return rng.choice("abcotvxyzAZ09")
    return rng.choice(["\xe4", "\x80", "-", "=", "?", "~", "\x7f", " ", "\t"])


def gen_opt(rng, used, ngroups):
    kind = rng.choice("omt")
    o = dict(kind=kind, group=rng.randint(0, ngroups), name=gen_name(rng, used), short=gen_short(rng),
             descr=gen_text(rng, newline_p=0.01 if rng.random() < 0.1 else 0.0),
             env="" if rng.random() < 0.6 else rng.choice(["APP_OPT", "X", "NITRO_" + "".join(rng.choice("ABCXYZ_") for _ in range(rng.randint(1, 45)))]),
             metavar=rng.choice(["ARG", "ARG", "FILE", "N", "a b", "level", "<x>", "M" * rng.randint(1, 20)]),
             flag=rng.random() < 0.4, rank=None)
    if kind == "o":
        o["default"] = None if rng.random() < 0.5 else rng.choice(["", "x", "42", "a b c", "  ", gen_word(rng, rng.choice([5, 30, 41, 80])), "{}", "a\tb"])
    elif kind == "m":
        o["default"] = None if rng.random() < 0.5 else rng.choice([[], ["a"], ["a", "b"], ["a", "", "b c"], ["", ""], [gen_word(rng, 41), "z"], ["x, y", "{}"]])
    else:
        o["default"] = rng.choice([False, True, False, True, 0, 1, 2, -1, 7])   # default_value(bool) and default_value(int)
    if rng.random() < 0.06:      # format / printf / regex metacharacters, bytes >= 0x80, NUL, sizes beyond the usual
        what = rng.choice(["metavar", "env", "descr", "default", "bigname", "bigmeta", "bigenv"])
        special = rng.choice(["{}", "%", "%s", "$1", "{0}", "\\", "\xe4\xf6", "\xff", "a{}b", "\x00", "(.*)"])
        if what == "metavar":
            o["metavar"] = rng.choice([special, "A" + special, special + "Z"])
        elif what == "env":
            o["env"] = "E" + special.replace("\x00", "_")
        elif what == "descr":
            o["descr"] = o["descr"] + " " + special + " tail words"
        elif what == "default" and kind == "o":
            o["default"] = special
        elif what == "default" and kind == "m":
            o["default"] = [special, "x", special]
        elif what == "bigname" and len(o["name"]) < 20:
            o["name"] = o["name"] + "".join(rng.choice(NAMECH) for _ in range(rng.choice([50, 260])))
        elif what == "bigmeta":
            o["metavar"] = "M" * rng.choice([64, 100, 256])
        elif what == "bigenv":
            o["env"] = "E" * rng.choice([65, 300])
    return o


APP_LENGTHS = [0, 1, 4, 4, 4, 8, 8, 12, 30, 60, 70, 71, 72, 73, 80, 100]


def gen_usage_case(rng, k2=False):
    used = set()
    ng = rng.choice([0, 0, 1, 2, 3])
    groups = []
    gnames = set()
    for _ in range(ng):
        gn = gen_name(rng, gnames)
        gd = "" if rng.random() < 0.4 else gen_text(rng, maxwords=8)
        groups.append((gn, gd[:80]))
    nopts = rng.choice([0, 1, 1, 2, 3, 4, 5, 6]) if rng.random() < 0.97 else rng.randint(7, 12)
    opts = [gen_opt(rng, used, ng) for _ in range(nopts)]
    rerank(opts, rng)
    n = rng.choice(APP_LENGTHS)
    app = "".join(rng.choice(LETTERS + "_-") for _ in range(n))
    about = "" if rng.random() < 0.5 else "\n".join(gen_text(rng, maxwords=10)[:80] for _ in range(rng.randint(1, 3)))
    if about and rng.random() < 0.05:
        about += rng.choice([" {} %s", " \xe4\xf6\xfc", " $HOME {0}"])
    if k2:
        long_line = gen_word(rng, rng.randint(2, 9))
        while len(long_line) <= 80 + rng.randint(0, 30):
            long_line += " " + gen_word(rng, rng.randint(2, 9))
        if groups and opts and rng.random() < 0.5:
            gi = opts[0]["group"] or 1
            opts[0]["group"] = gi
            groups[gi - 1] = (groups[gi - 1][0], long_line) + tuple(groups[gi - 1][2:])
        else:
            about = long_line if rng.random() < 0.5 else "intro\n" + long_line + "\nend"
    prior = "" if rng.random() < 0.1 else "".join(rng.choice("xy \n") for _ in range(rng.choice([1, 5, 7, 11, 13, 40, 79, 80, 81, 120])))
    if prior.endswith("\n") and rng.random() < 0.7:
        prior += "z"
    return dict(app=app, about=about, defname=rng.choice(["arguments", "arguments", "options", "g"]), pos=rng.random() < 0.2,
                posname=rng.choice(["args", "args", "FILES", "in out"]), prior=prior, groups=groups, opts=opts)


def gen_malformed_case(rng):
    c = gen_usage_case(rng)
    while not c["opts"]:
        c = gen_usage_case(rng)
    k = rng.randrange(6)
    o = dict(rng.choice(c["opts"]))
    if k == 0:       # the same name declared as another kind (parser_error at declaration)
        o["kind"] = rng.choice([x for x in "omt" if x != o["kind"]])
        o["default"] = False if o["kind"] == "t" else None
        o["group"] = rng.randint(0, len(c["groups"]))
        c["opts"].append(o)
    elif k == 1:     # declared twice with the same kind: the second call returns the first object; a different letter raises
        o["short"] = rng.choice([o["short"], "q", None])
        c["opts"].append(o)
    elif k == 2:     # empty metavar
        rng.choice(c["opts"])["metavar"] = ""
    elif k == 3:     # short name of two bytes
        rng.choice(c["opts"])["short"] = "ab"
    elif k == 4:     # the reserved key of the default group
        c["groups"].append(("__default", "x"))
        c["opts"][0]["group"] = len(c["groups"])
    else:            # the same group created twice
        c["groups"] = (c["groups"] or [("g1", "")])
        c["groups"].append(c["groups"][0])
    rerank(c["opts"], rng)
    return c


def short_words(rng, n=None):
    return " ".join(gen_word(rng, rng.randint(1, 6)) for _ in range(n if n is not None else rng.randint(2, 8)))


def long_then_short(rng, at_least):
    """text with an unbreakable word (at least `at_least` bytes) FOLLOWED by several short words"""
    long_w = gen_word(rng, at_least + rng.choice([0, 0, 1, 2, 10, 40]))
    head = "" if rng.random() < 0.3 else short_words(rng, rng.randint(1, 5)) + " "
    second = "" if rng.random() < 0.8 else " " + gen_word(rng, at_least + rng.randint(0, 5))   # two unbreakable words in a row
    return head + long_w + second + " " + short_words(rng, rng.randint(2, 9))


def gen_longword_case(rng):
    """usage-level cases aimed at the strict width rule: an unbreakable word (>= 40 bytes behind the option column,
    >= 80 - 8 - |app| in the synopsis) followed by several short words, in descriptions, defaults and the synopsis"""
    used = set()
    napp = rng.choice([4, 20, 40, 50, 60, 65])
    app = "".join(rng.choice(LETTERS) for _ in range(napp))
    room = 72 - napp
    opts = []
    # synopsis: an entry that is unbreakable there, sorted before short entries (options come in name order)
    long_name = "a" + "".join(rng.choice(NAMECH) for _ in range(max(1, min(29, room - 6 + rng.randint(0, 4)))))
    used.add(long_name)
    kind = rng.choice("om")
    opts.append(dict(kind=kind, group=0, name=long_name, short=None, descr=long_then_short(rng, 40), env="",
                     metavar="M" * max(1, room - len(long_name) - 6 + rng.randint(0, 3)) if rng.random() < 0.5 else "ARG",
                     flag=False, rank=None, default=None))
    for i in range(rng.randint(2, 4)):
        k = rng.choice("omt")
        name = "z" + gen_name(rng, used)[:3] + str(i)
        used.add(name)
        o = dict(kind=k, group=0, name=name, short=rng.choice([None, "x", "y"]), descr=long_then_short(rng, 40) if rng.random() < 0.6 else short_words(rng),
                 env=rng.choice(["", "E"]), metavar=rng.choice(["ARG", "N"]), flag=rng.random() < 0.5, rank=None)
        if k == "o":
            o["default"] = rng.choice([None, long_then_short(rng, 40), gen_word(rng, 45) + " a b c"])
        elif k == "m":
            o["default"] = rng.choice([None, [gen_word(rng, 45), "a", "b", "c"], [long_then_short(rng, 40), "z"]])
        else:
            o["default"] = rng.random() < 0.5
        opts.append(o)
    rerank(opts, rng)
    return dict(app=app, about="", defname="arguments", pos=rng.random() < 0.6, posname=rng.choice(["args", "a b c"]),
                prior="" if rng.random() < 0.5 else "xyz", groups=[], opts=opts)


def gen_fp_longword_case(rng):
    lp = rng.choice([0, 1, 8, 12, 40, 40, rng.randint(0, 60)])
    mw = lp + rng.choice([1, 2, 5, 12, 40, 40])
    indent = rng.choice([0, lp, max(0, lp - 1), lp + 1, lp + 30, rng.randint(0, lp + 1)])
    return "F %d %d %d %s" % (indent, lp, mw, hx(long_then_short(rng, mw - lp)))


def add_history(rng, c):
    """state that survives between uses: parse() calls before and between the usage() calls on the same parser object
    (empty / giving / failing argument vectors), a limited positional count, and options declared after a first usage()"""
    c["hist"] = "".join(rng.sample("egfcaxy", rng.randint(1, 4))) if rng.random() < 0.85 else rng.choice(["g", "c", "a", "ca"])
    if c["pos"] and rng.random() < 0.6:
        c["posamt"] = rng.choice([1, 1, 2, 3])
    if c["opts"] and rng.random() < 0.5:
        k = rng.randint(1, min(2, len(c["opts"])))
        for o in c["opts"][-k:]:
            o["late"] = True
    if rng.random() < 0.6:
        with_moved_groups(rng, c)
    return c


def add_style(rng, c):
    """HOW the declaration is written down (the text may not depend on it): D default arguments and default member values
    instead of explicit ones, P parser::option/... instead of parser::group().option, G groups fetched again by name, C one
    fluent chain of setters, T values set twice, B the public pieces called directly, X rejected setter attempts (metavar(""),
    short_name("")/("ab")/(another letter), env(another name)) caught and ignored after every declaration.  With D some values are moved onto the
    defaults so that the short forms are really taken"""
    c["style"] = "".join(l for l in "DPGCTBX" if rng.random() < 0.4) or rng.choice("DPGCTBX")
    if "D" in c["style"]:
        if rng.random() < 0.5:
            c["defname"] = "arguments"
        if rng.random() < 0.4:
            c["about"] = ""
        if rng.random() < 0.3:
            c["app"] = "main"
        if rng.random() < 0.5:
            c["posname"] = "args"
        for o in c["opts"]:
            if o["kind"] in "omt" and rng.random() < 0.5:
                o["metavar"] = "ARG"
            if o["kind"] in "omt" and rng.random() < 0.3:
                o["descr"] = ""
    return c


def gen_fmt(rng):
    """formatting state left on the target stream by the caller: fill character, adjustment, number base and flags, precision,
    exception mask of the default kind.  A pending field width is generated only on request (VERIF_C15_PENDING_WIDTH=1):
    on the unchanged tree it DOES change the text (the first insertion `s << head.str()` of parser::usage honours it) —
    reported to the lead as a finding, see corpus/C15.txt"""
    items = [rng.choice(["f30", "f2a", "f20", "f30", "f2a"])]
    if rng.random() < 0.7:
        items.append(rng.choice("LRI"))
    if rng.random() < 0.4:
        items.append(rng.choice("hod"))
    for flag in "sub":
        if rng.random() < 0.3:
            items.append(flag)
    if rng.random() < 0.3:
        items.append("p%d" % rng.choice([0, 1, 3, 12]))
    if rng.random() < 0.3:
        items.append("e")
    if os.environ.get("VERIF_C15_PENDING_WIDTH") == "1" and rng.random() < 0.5:
        items.append("w%d" % rng.choice([1, 5, 30, 100]))
    rng.shuffle(items)
    return ".".join(items)


def add_rerequests(rng, c):
    """RE-REQUEST already declared options (same name, kind and group) at later points of the declaration sequence:
    immediately after the first request, after other declarations in the same or another group, and late (after the
    parse()/move/usage() steps); sometimes with setters on the returned object, which must show up in the ONE block.
    The word of the first request keeps its own state; env and short name can be set only once."""
    base = [o for o in c["opts"] if o["kind"] not in "rk"]
    if not base:
        return c
    has_env = dict((o["name"], bool(o["env"])) for o in base)
    has_short = dict((o["name"], bool(o["short"])) for o in base)
    for _ in range(rng.choice([1, 1, 2, 3])):
        t = rng.choice(base)
        r = dict(kind=rng.choice("rrk"), group=t["group"], name=t["name"], short=None, descr=rng.choice(["", "another description", t["descr"]]),
                 env="", metavar="", flag=False, rank=None, default=None, setdefault=None, late=bool(t.get("late")))
        if rng.random() < 0.6:   # setters through the re-request
            what = rng.sample(["env", "default", "metavar", "flag", "short"], rng.randint(1, 3))
            if "env" in what and not has_env[t["name"]]:
                r["env"] = rng.choice(["LATE_ENV", "E2"])
                has_env[t["name"]] = True
            if "default" in what:
                if t["kind"] == "o":
                    r["setdefault"] = rng.choice(["", "re", "a b", gen_word(rng, 41) + " x y"])
                elif t["kind"] == "m":
                    r["setdefault"] = rng.choice([[], ["r"], ["r", "", "s t"]])
                else:
                    r["setdefault"] = rng.choice([False, True, 0, 1, 2, -1])
            if "metavar" in what and t["kind"] != "t":
                r["metavar"] = rng.choice(["NEW", "ARG", "x y"])
            if "flag" in what and t["kind"] != "t":
                r["flag"] = True
            if "short" in what and t["kind"] != "t" and not has_short[t["name"]]:
                r["short"] = rng.choice("klmn")
                has_short[t["name"]] = True
        # where: directly behind the first request, at the end, somewhere in between, or late
        i = c["opts"].index(t)
        where = rng.random()
        if not r["late"] and where < 0.25:
            r["late"] = True
        j = i + 1 if where < 0.45 else (len(c["opts"]) if where < 0.6 else rng.randint(i + 1, len(c["opts"])))
        c["opts"].insert(j, r)
    return c


def with_moved_groups(rng, c):
    """2-4 named groups, each with at least one option (an empty group is not printed), created in an order that is NOT
    the alphabetical one (a std::map iterates alphabetically); sometimes one more group that is created late, i.e. after the
    parser has been parsed with / moved / printed"""
    ng = rng.choice([2, 3, 3, 4])
    names = set()
    while len(names) < ng:
        names.add(rng.choice("abcdefghmnxyz") + "".join(rng.choice(LETTERS) for _ in range(rng.randint(0, 5))))
    names = sorted(names)
    order = names[:]
    while order == names:
        rng.shuffle(order)
    if rng.random() < 0.5:
        order = sorted(names, reverse=True)
    groups = [(n, "" if rng.random() < 0.6 else short_words(rng, 3), False) for n in order]
    used = set(o["name"] for o in c["opts"])
    late_group = rng.random() < 0.5
    if late_group:
        groups.append((rng.choice(["a", "m", "zz"]) + "late", "", True))
    c["groups"] = groups
    for o in c["opts"]:
        o["group"] = rng.randint(0, ng)
    for gi in range(1, len(groups) + 1):
        if not any(o["group"] == gi for o in c["opts"]):
            o = gen_opt(rng, used, 0)
            o["group"] = gi
            o["descr"] = short_words(rng, 2)
            c["opts"].append(o)
    if late_group:
        for o in c["opts"]:
            if o["group"] == len(groups):
                o["late"] = True
    # late options are listed (and declared) after the others
    c["opts"] = [o for o in c["opts"] if not o.get("late")] + [o for o in c["opts"] if o.get("late")]
    rerank(c["opts"], rng)
    return c


def small_usage_cases():
    """every shape of a single declaration: kind x letter x flag x default x env x description"""
    descrs = ["", "d", "some words that are long enough to be wrapped once behind column forty of the text"]
    for kind in "omt":
        defaults = {"o": [None, "", "v w"], "m": [None, [], ["p", "", "q r"]], "t": [False, True]}[kind]
        for short, flag, dflt, env, descr in itertools.product([None, "x"], [False, True], defaults, ["", "E"], descrs):
            o = dict(kind=kind, group=0, name="name", short=short, descr=descr, env=env, metavar="ARG", flag=flag, rank=None, default=dflt)
            rerank([o])
            yield dict(app="app", about="", defname="arguments", pos=False, posname="args", prior="ab", groups=[], opts=[o])
    # pointer order: three long toggles in all six orders, two letters in both name orders
    for perm in itertools.permutations(range(3)):
        opts = [dict(kind="t", group=0, name=n, short=None, descr="", env="", metavar="ARG", flag=False, rank=r, default=False)
                for n, r in zip(["aa", "bb", "cc"], perm)]
        opts.append(dict(kind="t", group=0, name="zz", short="b", descr="", env="", metavar="ARG", flag=False, rank=None, default=False))
        opts.append(dict(kind="t", group=0, name="yy", short="a", descr="", env="", metavar="ARG", flag=False, rank=None, default=False))
        yield dict(app="app", about="", defname="arguments", pos=True, posname="args", prior="", groups=[], opts=opts)


    # parse history and late declarations
    for hist, posamt, late in itertools.product(["e", "g", "f", "egf", "gg"], [None, 1, 2], [False, True]):
        opts = [dict(kind=k, group=0, name=n, short=None, descr="d", env="", metavar="ARG", flag=(k != "t"), rank=None,
                     default=(False if k == "t" else None), late=(late and n == "cc")) for k, n in zip("otm", ["aa", "bb", "cc"])]
        yield dict(app="app", about="", defname="arguments", pos=True, posamt=posamt, hist=hist, posname="args", prior="p", groups=[], opts=rerank(opts))
    # every way of writing the same declaration down (style letters alone and together), on a declaration made of default values,
    # with default_value(bool)/(int), a setter through a kept reference, usage() inside the exception handler, greedy_postionals()
    for style, tdef in itertools.product(["D", "P", "G", "C", "T", "B", "X", "DX", "CTX", "DP", "DG", "CT", "DPGCTBX"], [False, True, 0, 2, -1]):
        opts = [dict(kind="o", group=0, name="opt", short="o", descr="", env="OPT_ENV", metavar="ARG", flag=True, rank=None, default="dv", late=False),
                dict(kind="m", group=1, name="mul", short=None, descr="words", env="", metavar="ARG", flag=True, rank=None, default=["a", "b"], late=False),
                dict(kind="t", group=1, name="tog", short=None, descr="", env="", metavar="ARG", flag=True, rank=None, default=tdef, late=False),
                dict(kind="k", group=1, name="mul", short="m", descr="", env="LATE", metavar="N", flag=False, rank=None, default=None, setdefault=["c"], late=True)]
        yield dict(app="main", about="", defname="arguments", pos=True, posamt=None, hist="xyg", fmt="", style=style, posname="args", prior="",
                   groups=[("grp", "", False)], opts=rerank(opts))
    # formatting state of the target stream: every dimension alone and a few combinations, on a text with padding and wrapping
    for fmt in ["f30", "f2a", "L", "I", "R", "f30.L", "f2a.I", "f30.R", "h", "o", "s", "u", "b", "h.s.u", "p0", "p12", "e",
                "f30.L.h.s.u.b.p3.e", "f2a.I.o.s.b.p0.e"]:
        opts = [dict(kind="t", group=0, name="verbose", short="v", descr="print more", env="V", metavar="ARG", flag=True, rank=0, default=True),
                dict(kind="o", group=0, name="a-rather-long-option-name-to-wrap-the-synopsis-line", short="o",
                     descr="some words that are long enough to be wrapped once behind column forty of the text", env="", metavar="ARG",
                     flag=False, rank=None, default="7")]
        yield dict(app="app", about="about", defname="arguments", pos=True, posamt=None, hist="", fmt=fmt, posname="args", prior="xy", groups=[], opts=opts)
    # re-requests: directly behind the first request, behind another declaration of the same group, of another group, and late;
    # with and without setters; each kind
    for kind, place, setters in itertools.product("omt", ["direct", "same-group", "other-group", "late"], [False, True]):
        def od(k, name, group):
            return dict(kind=k, group=group, name=name, short=None, descr="first description", env="", metavar="ARG", flag=(k != "t"),
                        rank=None, default=(False if k == "t" else None), late=False)
        r = dict(kind="r", group=1, name="target", short=None, descr="second description", env="RE_ENV" if setters else "", metavar="",
                 flag=False, rank=None, default=None, late=(place == "late"),
                 setdefault=(None if not setters else ("dv" if kind == "o" else (["d1", "d2"] if kind == "m" else True))))
        opts = [od(kind, "target", 1)]
        if place == "same-group":
            opts.append(od("o", "other", 1))
        elif place == "other-group":
            opts.append(od("m", "other", 2))
        elif place == "late":
            opts.append(od("t", "other", 1))
        opts.append(r)
        yield dict(app="app", about="", defname="arguments", pos=False, posamt=None, hist="g" if place == "late" else "", posname="args", prior="",
                   groups=[("g1", "", False), ("g2", "", False)], opts=rerank(opts))
    # moved parser: groups must stay in creation order (three groups, all six orders; a late group; both kinds of move)
    for hist, perm, lateg in itertools.product(["c", "a", "gca"], itertools.permutations(["alpha", "mid", "zeta"]), [False, True]):
        groups = [(n, "", False) for n in perm] + ([("beta", "", True)] if lateg else [])
        opts = [dict(kind="o", group=i + 1, name="o%d" % i, short=None, descr="", env="", metavar="ARG", flag=True, rank=None,
                     default=None, late=(i == 3)) for i in range(len(groups))]
        yield dict(app="app", about="", defname="arguments", pos=False, posamt=None, hist=hist, posname="args", prior="", groups=groups, opts=opts)
    # byte order: letters are sorted as (signed) char, names as unsigned bytes; groups print in creation order
    def tg(name, short, group=0, flag=False):
        return dict(kind="t", group=group, name=name, short=short, descr="", env="", metavar="ARG", flag=flag, rank=None, default=False)
    opts = [tg("n1", "\xe4"), tg("n2", "a"), tg("n3", "\x7f"), tg("n4", "\x80"), tg("n5", "A"), tg("n6", "a")]
    yield dict(app="app", about="", defname="arguments", pos=False, posname="args", prior="", groups=[], opts=rerank(opts))
    for perm in itertools.permutations(range(3)):
        opts = [dict(tg(n, None), kind=k, default=(False if k == "t" else None)) for n, k in zip(["\xe4b", "z", "a"], "oom")]
        opts += [tg(n, None, group=g) for n, g in zip(["\xfft", "At", "zt"], (2, 1, 2))]
        for o, r in zip(opts[3:], perm):
            o["rank"] = r
        yield dict(app="app", about="", defname="arguments", pos=False, posname="args", prior="", groups=[("zeta", "last?"), ("alpha", "")], opts=opts)


def fp_exhaustive(tier):
    L = 4 if tier == "quick" else 6
    for n in range(L + 1):
        for t in itertools.product("a \t", repeat=n):
            text = "".join(t)
            for indent in (-1, 0, 1, 2, 3):
                for lp in (0, 1, 2, 3):
                    for mw in (0, 2, 3, 4, 5, 6):
                        yield "F %d %d %d %s" % (indent, lp, mw, hx(text))


def gen_fp_case(rng):
    lp = rng.choice([0, 1, 8, 12, 40, 40, 40, rng.randint(0, 90)])
    mw = rng.choice([80, 80, 80, lp, lp + 1, lp + 2, max(0, lp - 1), rng.randint(0, 100)])
    indent = rng.choice([-1, 0, lp, lp + 1, max(0, lp - 1), rng.randint(0, 100), rng.randint(0, max(1, lp))])
    room = max(0, mw - lp)
    n = rng.choice([0, 1, 2, 3, 5, 10, 25, 40])
    ws = []
    for _ in range(n):
        r = rng.random()
        if r < 0.25:
            k = max(0, room + rng.choice([-2, -1, 0, 1]))
        elif r < 0.35:
            k = 0
        else:
            k = rng.randint(1, 10)
        w = "".join(rng.choice("abc") for _ in range(k))
        if k >= 2 and rng.random() < 0.1:
            w = w[:1] + "\t" + w[2:]
        ws.append(w)
    text = " ".join(ws)
    if rng.random() < 0.03:
        text = text.replace(" ", "\n", 1)
    return "F %d %d %d %s" % (indent, lp, mw, hx(text))


class C15(Check):
    prop = "C15"
    vfiles = ["Properties/Properties_C15.v", "Extract/Extract_Usage.v"]
    cpp = dict(name="usage", driver_src="harness/usage_driver.cpp",
               repo_srcs=["src/options/parser.cpp", "src/options/group.cpp", "src/options/option.cpp",
                          "src/options/multi_option.cpp", "src/options/toggle.cpp", "src/env/get.cpp"])
    ocaml = dict(name="usage", extracted="usage_model.ml", glue=("glue_base.ml", "glue_z.ml"))
    corpus = "C15.txt"
    design_ref = "DESIGN.md section 6, C15 (and known finding K2 in section 5)"
    technique = ("Coq proof over an executable model of parser::usage / group::usage / base::format / format_padded "
                 "(induction on the word list with the wrapping invariant; token algebra for content and order) + "
                 "extraction-based differential test against the C++ on four kinds of target stream")
    level_text = ("Twenty-one theorems proved in Coq for ALL declarations, all texts/columns/widths and all orders of the long toggles, over a "
                  "Gallina model that follows parser::usage, group::usage, base::format, the three format_* families and format_padded "
                  "statement by statement: the text is no function of the target stream (and the pre-repair head line was); groups in "
                  "creation order, blocks in declaration order, an empty group prints nothing; the layout-free token sequence of the whole "
                  "text equals synopsis entries ++ about ++ per group (name, description, per option: spelling, placeholder, description, "
                  "environment hint iff declared, default iff declared) - nothing lost, doubled or reordered; the synopsis mentions every "
                  "declaration; format_padded emits the words in order separated only by layout; the STRICT width rule (every line is a beginning of at "
                  "most max_width columns followed by nothing but unbreakable words, so an over-wide line ends with one) for format_padded "
                  "(both cases of the left column) and for the whole text under the K2 hypothesis (with a refutation without it); the "
                  "oracle's checks accept the model's text on every input; split/replace_all never exhaust their fuel. The model is tied "
                  "to /repo by running the extracted model and the real code (ASan/UBSan build of the working tree) on the same cases and "
                  "comparing the exact text, written to four kinds of stream; the oracle (extracted spec functions) judges every difference")
    level_note = ("trusted: Coq kernel, ExtrOcamlBasic extraction, OCaml compiler, the differential harness. Proved about the model only; "
                  "model = code is tested (exact text, bounded-exhaustive + random), not proved. Only exercised by the driver, not "
                  "proved: independence of the real code from state left by earlier uses (parse() calls of three kinds before and between "
                  "usage() calls, move construction / move assignment of the parser, a first usage() before late declarations and late groups, usage() twice on the same stream kind: in the model the text "
                  "is a function of the declaration alone) and stream independence of the real code, including the stream's formatting state (fill, adjustment, base and flags, precision, "
                  "exception mask; NOT a pending field width, which today pads the first line - reported) (fresh stringstream / stringstream with prior content / non-seekable "
                  "ostream / std::cout with swapped rdbuf must receive identical text); std::setw + operator<<(char) padding, tellp(), "
                  "std::map name order, std::sort on (signed) char, nitro::format's one-placeholder substitution (modelled as "
                  "concatenation). The address order of the long toggles is forced by the driver (arena operator new during their "
                  "declaration) and verified through the public API; if the implementation stopped using address order the exact-text "
                  "comparison would report no-failing-input-found as long as the oracle accepts. Domain: well-formed declarations "
                  "(unique option and group names, non-empty metavars, one-byte short names), left_pad/max_width >= 0, strings shorter "
                  "than 2^31. The width theorems need texts without line breaks and an application name shorter than 72 bytes; outside "
                  "that the oracle makes no width claim")
    rule = ("(i) every single-declaration shape (kind x letter x flag x default x env x description) and all six address orders of three "
            "long toggles; format_padded exhaustively over texts on {a, blank, tab} up to a length bound x indent {-1,0..3} x left_pad "
            "{0..3} x max_width {0,2..6}; (ii) random declarations: 0-3 groups, 0-6 options of mixed kinds in interleaved group order, "
            "names 1-30 bytes incl. prefixes of each other and no- names, descriptions of 0-40 words incl. words of 38-41, 71-73, 79-81 "
            "bytes, double/leading/trailing blanks, tabs, rare line breaks, metavars and defaults with blanks, env names, app names of "
            "0-100 bytes, random prior stream content, random address order of the long toggles; random format_padded calls aimed at "
            "|w|+1 = max_width-left_pad +-1, indent = left_pad +-1, max_width <= left_pad, position -1; usage-level and "
            "format_padded-level cases with an unbreakable word (>= 40 bytes behind the option column, >= 72-|app| in the synopsis) "
            "FOLLOWED by several short words, in descriptions, defaults and synopsis entries, incl. two unbreakable words in a row; "
            "about 30% of the usage cases carry state between uses: parse() calls (empty, giving, failing argument vectors) before and "
            "between the usage() calls on the same parser object, the parser move-constructed into a new object / move-assigned into a used "
            "one at the same points (with 2-4 named groups created in non-alphabetical order, and a group created after the move), "
            "accept_positionals(k), options declared after a first usage() call; about a third of the usage cases put a FORMATTING STATE on "
            "every target stream before usage() (fill ' '/'0'/'*', adjustfield left/right/internal, basefield, showbase, uppercase, "
            "boolalpha, precision, exceptions(goodbit); one more usage() goes to a stream in its default state) - the model says none of "
            "it matters, the text is a function of the declarations only; a pending field width is NOT generated by default (it changes "
            "the first line through the first formatted insertion - ordinary iostream behaviour of the caller's stream, outside the "
            "property's quantifier; opt in with VERIF_C15_PENDING_WIDTH=1); half of the usage cases vary HOW the declaration is written "
            "(default arguments/default member values vs explicit ones, parser::option vs group().option, groups fetched again by "
            "name, one fluent setter chain, values set twice, default_value(bool) vs (int), setters through kept references, direct "
            "calls of base::format/format_*/group::usage whose output must occur in the text, REJECTED setter calls - metavar(\"\"), "
            "short_name(\"\")/(\"ab\")/(another letter), env(another name) - caught and ignored after every declaration: they must leave "
            "no trace and must be rejected), usage() inside the handler of a failed "
            "parse, greedy_postionals(); names/metavars/env/defaults/about with {} % $ \\ regex characters, bytes >= 0x80, NUL, "
            "lengths of 64-300 bytes; about a third of the usage cases RE-REQUEST declared "
            "options (same name/kind/group: directly, after other declarations of the same or another group, late) with or without "
            "setters on the returned object (the block must appear once, carrying them), "
            "and usage() twice on a fresh string stream; (iii) declarations outside the "
            "model's domain (duplicate names, reserved/duplicate group names, empty metavar, two-byte short name): only 'no crash, no "
            "hang' is compared; (iv) corpus. A usage case is "
            "non-trivial when it declares at least one option, a format_padded case when the output has a line break or more than one "
            "byte; distinct = distinct case line")
    modelled_note = ("modelled, not verified: std::setw/operator<<(char) field-width semantics, tellp() of std::stringstream (= bytes written) "
                     "and of a non-seekable stream (-1), std::map<std::string,...> iteration order (unsigned byte-lexicographic), std::sort on "
                     "char (signed), std::set<toggle*> iteration order (a parameter of the model), nitro::format with one placeholder "
                     "(modelled as concatenation), std::endl as a line feed; int overflow of `space` and the size_t wrap-around of "
                     "max_width - left_pad are modelled for strings shorter than 2^31 bytes")

    def __init__(self):
        self._k2_cases = []

    def cases(self, tier, rng):
        self._k2_cases = []
        for c in small_usage_cases():
            yield enc_case(c), "usage-small"
        for line in fp_exhaustive(tier):
            yield line, "fp-exh"
        NU = 4000 if tier == "quick" else 80000
        for i in range(NU):
            k2 = (i % 25 == 7)
            c = gen_usage_case(rng, k2)
            if rng.random() < 0.3:
                if rng.random() < 0.4:
                    c["pos"] = True
                add_history(rng, c)
            if rng.random() < 0.35:
                add_rerequests(rng, c)
            if rng.random() < 0.35:
                c["fmt"] = gen_fmt(rng)
            if rng.random() < 0.5:
                add_style(rng, c)
            line = enc_case(c)
            if k2_lines(c):
                self._k2_cases.append(line)
                yield line, "usage-k2"
            else:
                yield line, "usage-rand"
        for _ in range(600 if tier == "quick" else 10000):
            yield enc_case(gen_longword_case(rng)), "usage-longword"
        for _ in range(2000 if tier == "quick" else 40000):
            yield gen_fp_longword_case(rng), "fp-longword"
        for _ in range(300 if tier == "quick" else 3000):
            line = enc_case(gen_malformed_case(rng))
            if is_malformed(line):
                yield line, "usage-malformed"
        NF = 15000 if tier == "quick" else 300000
        for _ in range(NF):
            yield gen_fp_case(rng), "fp-rand"

    def normalize(self, case, obs):
        """declarations outside the model's domain are only checked for "no crash, no hang" """
        if case.startswith("U ") and is_malformed(case):
            return obs if obs.startswith(("CRASH", "HANG", "OTHER", "PROTOCOL")) else "MALFORMED"
        return obs

    def nontrivial(self, case, mobs, iobs):
        t = text_of(iobs)
        if t is None:
            return False
        if case.startswith("U"):
            return len(case.split(" ")) > 8
        return "\n" in t or len(t) > 1

    def signature(self, case, mobs, iobs):
        if iobs == "MALFORMED":
            return ("U", "MALFORMED")
        t = text_of(iobs) or ""
        lines = t.split("\n")
        widest = max(len(l) for l in lines)
        w = case.split(" ")
        if w[0] == "U":
            kinds = "".join(sorted(set(x[0] for x in w[8:])))
            return ("U", iobs.split(" ")[0], kinds, min(len(w) - 8, 6), min(len(lines) // 8, 6), (widest > 80) + (widest > 79), w[4].partition(":")[2])
        return ("F", iobs.split(" ")[0], w[1] == "-1", int(w[1]) > int(w[2]), int(w[2]) < int(w[3]), min(len(lines), 5), widest > int(w[3]))

    def shrink(self, case):
        w = case.split(" ")
        if w[0] == "F":
            t = unhx(w[4])
            ws = t.split(" ")
            for i in range(len(ws)):
                yield " ".join(w[:4] + [hx(" ".join(ws[:i] + ws[i + 1:]))])
            for i in range(len(t)):
                yield " ".join(w[:4] + [hx(t[:i] + t[i + 1:])])
            return
        c = dec_case(case)

        def variant(**kw):
            d = dict(c)
            d.update(kw)
            base = set(o["name"] for o in d["opts"] if o["kind"] not in "rk")
            d["opts"] = rerank([dict(o) for o in d["opts"] if o["kind"] not in "rk" or o["name"] in base])
            return enc_case(d)
        for i in range(len(c["opts"])):
            yield variant(opts=c["opts"][:i] + c["opts"][i + 1:])
        if c["about"]:
            yield variant(about="")
        if c["prior"]:
            yield variant(prior="")
        if c.get("style"):
            yield variant(style="")
            for i in range(len(c["style"])):
                if len(c["style"]) > 1:
                    yield variant(style=c["style"][:i] + c["style"][i + 1:])
        if c.get("fmt"):
            yield variant(fmt="")
            items = c["fmt"].split(".")
            for i in range(len(items)):
                if len(items) > 1:
                    yield variant(fmt=".".join(items[:i] + items[i + 1:]))
        if c.get("hist"):
            yield variant(hist="")
            if len(c["hist"]) > 1:
                for i in range(len(c["hist"])):
                    yield variant(hist=c["hist"][:i] + c["hist"][i + 1:])
        if any(o.get("late") for o in c["opts"]):
            yield variant(opts=[dict(o, late=False) for o in c["opts"]])
        if c["pos"] and c.get("posamt") is not None:
            yield variant(posamt=None)
        if c["pos"]:
            yield variant(pos=False)
        if c["groups"] and all(o["group"] != len(c["groups"]) for o in c["opts"]):
            yield variant(groups=c["groups"][:-1])
        for gi, g in enumerate(c["groups"]):
            if g[1]:
                yield variant(groups=c["groups"][:gi] + [(g[0], "") + tuple(g[2:])] + c["groups"][gi + 1:])
            if len(g) > 2 and g[2]:
                yield variant(groups=c["groups"][:gi] + [(g[0], g[1], False)] + c["groups"][gi + 1:])
        if len(c["app"]) > 0:
            yield variant(app=c["app"][:-1])
            yield variant(app=c["app"][:len(c["app"]) // 2])
        for i, o in enumerate(c["opts"]):
            def with_o(**kw):
                o2 = dict(o)
                o2.update(kw)
                return variant(opts=c["opts"][:i] + [o2] + c["opts"][i + 1:])
            ws = o["descr"].split(" ")
            if len(ws) > 1:
                yield with_o(descr=" ".join(ws[:len(ws) // 2]))
                yield with_o(descr=" ".join(ws[len(ws) // 2:]))
                for j in range(min(len(ws), 12)):
                    yield with_o(descr=" ".join(ws[:j] + ws[j + 1:]))
            elif o["descr"]:
                yield with_o(descr="")
                yield with_o(descr=o["descr"][:-1])
            if o["env"]:
                yield with_o(env="")
            if o["kind"] != "t" and o["default"] is not None:
                yield with_o(default=None)
            if o["kind"] in "rk" and o.get("setdefault") is not None:
                yield with_o(setdefault=None)
            if o["group"] != 0:
                yield with_o(group=0)
            if o["short"] and not (o["kind"] == "t" and not o["flag"]):
                yield with_o(short=None)
            if o["metavar"] != "ARG":
                yield with_o(metavar="ARG")

    def known_match(self, matcher, case, mobs, iobs):
        """K2: the two texts differ only in how an over-long line of the about text or of a group description is laid
        out (the model, like the code, writes it verbatim)"""
        if matcher != K2_MATCHER or not case.startswith("U "):
            return False
        k2 = k2_lines(dec_case(case))
        mt, it = text_of(mobs), text_of(iobs)
        if not k2 or mt is None or it is None:
            return False
        ml, il = mt.split("\n"), it.split("\n")
        while ml and il and ml[0] == il[0]:
            ml.pop(0)
            il.pop(0)
        while ml and il and ml[-1] == il[-1]:
            ml.pop()
            il.pop()
        if not ml or any(l not in k2 for l in ml):
            return False
        return [t for l in ml for t in toks(l) if t] == [t for l in il for t in toks(l) if t]

    def extra(self, ctx):
        """K2 is behaviour that model and code share, so it never shows up as a difference: report it (once) when a
        generated declaration has such a line and the implementation's text really contains it unwrapped"""
        if not self._k2_cases or not ctx.get("impl") or any("[K2]" in l for l in ctx["known"]):
            return
        entry = [k for k in load_known()[0] if self.prop in k["props"] and k["matcher"] == K2_MATCHER]
        if not entry:
            return
        for case in self._k2_cases[:5]:
            obs, _ = run_lines(ctx["impl"], [case])
            t = text_of(obs[0]) if obs else None
            if t is not None and any(l in t.split("\n") for l in k2_lines(dec_case(case))):
                ctx["known"].append("KNOWN-FINDING: property=%s %s [%s] e.g. case=%s" % (self.prop, entry[0]["what"], entry[0]["id"], case[:200]))
                ctx.setdefault("coverage_extra", {})["known_finding_K2_cases"] = len(self._k2_cases)
                return


CHECK = C15

# props/C18.py — owning wrappers: nitro::lang::quaint_ptr ("q" cases) and nitro::lang::optional ("o" cases)
import itertools
from lib.framework import Check


def hx(s):
    return s.encode("latin-1").hex() if s else "-"


# ---------------------------------------------------------------- quaint_ptr operation alphabet
def q_alphabet(P, T, VK):
    ops = []
    for i in range(P):
        for t in range(T):
            ops.append(("mk", i, t))
    for i in range(P):
        for j in range(P):
            if i != j:
                ops.append(("mc", i, j))
    for i in range(P):
        for j in range(P):
            ops.append(("ma", i, j))          # i == j: self move assignment
    for i in range(P):
        ops += [("rs", i), ("dr", i), ("vp", i), ("an", i), ("dc", i)]
    for i in range(P):
        for j in range(i, P):
            ops.append(("sw", i, j))          # i == j: swap with itself
    ops.append(("mx", 0, T - 1))              # make_quaint whose payload constructor throws (into pool[0] / into the vector)
    ops.append(("vx", 0))
    ops += [("vg",), ("vc",), ("vo",)]
    for k in range(VK):
        ops.append(("ve", k))
    for i in range(P):
        for k in range(VK):
            ops.append(("vt", i, k))
    for k in range(VK):
        ops.append(("vn", k))
    return ops


# generator-side shape tracking only (which pool slots hold a pointer object, how long the vector is):
# enough to know whether an operation is applicable; what the operation DOES is decided by model and code
def q_applicable(st, op):
    live, vl = st
    k = op[0]
    if k in ("mk", "mx", "mr"):
        return op[1] < len(live)
    if k == "vx":
        return True
    if k == "mc":
        return op[1] < len(live) and op[2] < len(live) and (not live[op[1]]) and live[op[2]]
    if k in ("ma", "sw"):
        return op[1] < len(live) and op[2] < len(live) and live[op[1]] and live[op[2]]
    if k in ("rs", "dr", "vp", "an"):
        return op[1] < len(live) and live[op[1]]
    if k == "dc":
        return op[1] < len(live) and not live[op[1]]
    if k in ("vg", "vc"):
        return True
    if k == "vo":
        return vl > 0
    if k in ("vn", "ve"):
        return op[1] < vl
    if k == "vt":
        return op[1] < len(live) and live[op[1]] and op[2] < vl
    return False


def q_shape_step(st, op):
    if not q_applicable(st, op):
        return st
    live, vl = st
    live = list(live)
    k = op[0]
    if k in ("mk", "mr", "mc", "dc"):
        live[op[1]] = True
    elif k == "dr":
        live[op[1]] = False
    elif k == "vp":
        vl += 1
    elif k == "vc":
        vl = 0
    elif k in ("vo", "ve"):
        vl -= 1
    return (tuple(live), vl)


def q_exhaustive(P, T, VK, depth):
    ops = q_alphabet(P, T, VK)

    def rec(st, d, acc):
        if d == 0:
            yield acc
            return
        for o in ops:
            if q_applicable(st, o):
                yield from rec(q_shape_step(st, o), d - 1, acc + [o])
    yield from rec(((False,) * P, 0), depth, [])


def opw(o):
    return ".".join(str(x) for x in o)


def q_case(P, seq, lsan=False):
    return "q %d %s%s" % (P, ",".join(opw(o) for o in seq) if seq else ".", " lsan" if lsan else "")


# ---------------------------------------------------------------- optional operation alphabet
# value operations / copies come in three source categories (const lvalue, non-const lvalue, rvalue): different overload
# resolution in the C++, one model function each
VAL_OPS_ALL = ("va", "vn", "vm", "vc", "vq", "vr")
COPY_OPS_ALL = ("as", "an", "ar", "cc", "cn", "cr")
READ_OPS_ALL = ("rd", "rc", "rm", "rp", "rt")      # non-const lvalue, const lvalue, std::move, prvalue, member of a temporary
KIND_VALUES = {"b": ["\x00", "\x01"], "f": ["\x00", "\x01"], "i": ["0", "-17", "123456"], "a": ["", "ab"], "s": ["", "a"], "c": ["", "a"]}


def o_alphabet(P, vals, full, cats=False):
    ops = []
    for i in range(P):
        for v in vals:
            for k in (VAL_OPS_ALL if cats else ("va", "vm", "vc", "vr") if full else ("va", "vr")):
                ops.append((k, i, hx(v)))
    for i in range(P):
        for j in range(P):
            for k in (COPY_OPS_ALL if cats else ("as", "cc")):
                ops.append((k, i, j))
    for i in range(P):
        ops += [("ae", i), ("dc", i), ("rd", i)]
        if cats:
            ops += [(k, i) for k in READ_OPS_ALL[1:]]
    return ops


def o_case(kind, P, seq, lsan=False):
    return "o %s %d %s%s" % (kind, P, ",".join(opw(o) for o in seq) if seq else ".", " lsan" if lsan else "")


class C18(Check):
    prop = "C18"
    vfiles = ["Properties/Properties_C18.v", "Tie/Tie_C18.v", "Extract/Extract_Own.v"]
    cpp = dict(name="own", driver_src="harness/own_driver.cpp", repo_srcs=["src/env/get.cpp"])
    ocaml = dict(name="own", extracted="own_model.ml", glue=("glue_base.ml",))
    corpus = "C18.txt"
    design_ref = "DESIGN.md section 6, C18 — owning wrappers"
    technique = ("Coq proof of ownership invariants over executable models of quaint_ptr.hpp and optional.hpp (counting owners per "
                 "object, induction over arbitrary operation lists; optional by refinement to plain value semantics); the nine members of optional<T> are "
                 "re-translated from the source by clang on every run and proved equal to the model's member functions (Tie_C18) + "
                 "extraction-based differential test against the C++ with instrumented payload types under ASan/UBSan/LSan")
    level_text = ("Thirty theorems proved in Coq for ALL operation lists: every object made through make_quaint is destroyed at most "
                  "once and only by the destructor of its creation type, is alive iff exactly one pointer (pool variable or vector "
                  "element) owns it, moved-from and reset pointers are empty, vector reallocation destroys nothing, and after the "
                  "last owner is gone every object has been destroyed exactly once; optional<T> refines plain value semantics "
                  "(deep copy, no two optionals share storage, assigning an empty optional empties the target, reading an empty one "
                  "raises, writing one never changes another, no T is leaked). The models follow quaint_ptr.hpp/optional.hpp member "
                  "by member. optional<T> is tied by translation: gen/tr_optional.py re-reads its nine user-declared members from clang's AST on every run "
                  "into the little language of Own/OptLang.v and Tie_C18 (7 theorems) proves, for every heap, object and argument, that running them gives "
                  "exactly ctor_copy, ctor_val, assign_opt, assign_val, opt_bool and opt_read of the model (an unrecognised construct is OUnknown: stuck). "
                  "Both classes are tied to /repo by running the extracted models and the real classes (ASan/UBSan build of the "
                  "working tree, id-stamped payload types A/B/C with per-type constructor/destructor counters) on the same "
                  "exhaustive + random operation sequences and diffing the state after every step; an oracle built from the "
                  "extracted spec checks judges every differing observation")
    level_note = ("trusted: Coq kernel, ExtrOcamlBasic extraction, OCaml compiler, the differential harness, gen/tr_optional.py's reading of the clang AST and "
                  "the meaning Own/OptLang.v gives to `data_ = std::make_unique<T>(x)`, `data_.reset()`, `*other`, `std::move(data)`. ASSUMED, not verified: "
                  "exactly-once release and null-after-move in the real program are std::unique_ptr's (and std::function's move), "
                  "std::vector's reallocation is move-construct-all + destroy-all, std::make_unique allocates a fresh T — the models "
                  "write these library semantics out. What nitro adds — the deleter lambda casting back to the creation type, "
                  "reset(), the defaulted moves, optional's copy/assign/dereference bodies — is modelled and proved, and is tied to "
                  "the code only by the driver: the per-type constructor/destructor counters and the 'which destructor type ran on "
                  "which object' record are the only thing that sees a wrong cast in the deleter. The correspondence is "
                  "bounded-exhaustive (quick: all applicable sequences to depth 4 over a pool of 2 pointers + a vector and to depth 3 "
                  "over a pool of 3, 2 types; thorough: depth 4 over a pool of 3; optional to depth 3) + sampled (random to length 20), not proved. The model has ONE function per optional operation; the C++ overload "
                  "set (const T& / T&& / copy operations) and the source's value category (const lvalue, non-const lvalue, rvalue) and "
                  "payload type (bool, int, constructible-from-anything, convertible-from-bool, std::string, counting type) — i.e. which "
                  "overload is actually selected — are distinguished only by the driver; likewise the value category of the optional at a read site (the model has "
                  "ONE read: an empty optional raises, an engaged one yields its value and is left unchanged — the unchanged header "
                  "never moves out; the driver only looks at the value through the returned reference, and the transient copies that "
                  "make the temporaries are not modelled). Leaks: allocator bytes are compared before/after every case and LeakSanitizer confirms any growth.")
    rule = ("quaint_ptr: RE-ENTRANT payloads (the destructor calls reset() on / assigns nullptr to the pointer that owns the object, while that pointer is being reset / assigned / move-assigned): every applicable sequence of depth 2 (thorough 3) after the creation on a pool of 2 plus random histories of length <= 16 on a pool of 3; passive payloads: every applicable operation sequence of depth 4 on a pool of 2 pointers and of depth 3 on a pool of 3 (thorough: "
            "also depth 4 on a pool of 3 and depth 4 on a pool of 2 with 3 types) "
            "over {make<T>, make<T> whose constructor throws (assigned, emplaced, pushed into the vector), default-construct, move-construct, move-assign (incl. self), reset, p = nullptr (also on a vector "
            "element), std::swap (incl. with itself), destroy, "
            "push_back(move), reserve, pop_back, erase in the middle, clear, move out of vector} + one std::vector<quaint_ptr>, then random sequences of length 12-20 (biased to "
            "applicable operations) and fully random ones (inapplicable operations must be skipped identically); optional: every "
            "sequence of depth 3 over {assign value, construct from value, copy-assign (incl. self), copy-construct, assign empty, "
            "default-construct, read} on 2 optionals of a counting type, every sequence of depth 2 over the same operations with the source offered as "
            "const lvalue / non-const lvalue / rvalue and the optional READ (operator*, operator bool) as non-const lvalue / const lvalue / "
            "std::move(named) / prvalue returned by a function / member of a temporary, empty and engaged, for T = bool, int, a class constructible from anything, a class convertible "
            "from bool, std::string and the counting type; random length <= 16 on 3 optionals of all six payload types. The state is observed after EVERY step. Non-trivial: a quaint "
            "case in which some object is destroyed before the end of the history and some pointer is moved; an optional case "
            "with a copy/assignment from another optional. distinct = distinct case line")
    modelled_note = ("modelled, not verified: std::unique_ptr (release on destruction/reset/move assignment, null after move), "
                     "std::function move, std::vector reallocation/clear, std::make_unique; T of optional<T> is a byte string "
                     "(std::string and a counting wrapper in the driver)")

    # ------------------------------------------------------------ cases
    def cases(self, tier, rng):
        quick = tier == "quick"
        # (i) exhaustive, applicable-only
        for seq in q_exhaustive(2, 2, 2, 4):
            yield q_case(2, seq), "q-exh4-pool2"
        for seq in q_exhaustive(3, 2, 2, 3):
            yield q_case(3, seq), "q-exh3-pool3"
        if not quick:
            for seq in q_exhaustive(3, 2, 2, 4):
                yield q_case(3, seq), "q-exh4-pool3"
            for seq in q_exhaustive(2, 3, 2, 4):
                yield q_case(2, seq), "q-exh4-pool2-3types"
        # re-entrant payloads (the destructor calls reset() on / assigns nullptr to the pointer that owns the object):
        # every history of depth 3 after the creation, then random longer ones
        re_ops = [o for o in q_alphabet(2, 1, 1) if o[0] in ("mk", "mc", "ma", "rs", "dr", "vp", "vt", "an", "sw", "dc", "vc")]
        re_ops += [("mr", i, t, m) for i in range(2) for t in (0, 2) for m in (1, 2, 3)]
        for first in [("mr", i, t, m) for i in range(2) for t in range(3) for m in (1, 2, 3)]:
            def rec(st, d, acc):
                if d == 0:
                    yield acc
                    return
                for o in re_ops:
                    if q_applicable(st, o):
                        yield from rec(q_shape_step(st, o), d - 1, acc + [o])
            for seq in rec(q_shape_step(((False,) * 2, 0), first), 2 if quick else 3, [first]):
                yield q_case(2, seq), "q-reentrant-exh"
        alpha_re = q_alphabet(3, 3, 3) + [("mr", i, t, m) for i in range(3) for t in range(3) for m in (1, 2, 3)] * 2
        for n in range(1500 if quick else 20000):
            st = ((False,) * 3, 0)
            seq = []
            for _ in range(rng.randint(4, 16)):
                cand = [o for o in alpha_re if q_applicable(st, o)]
                if any(st[0]) and rng.random() < 0.7:
                    cand = [o for o in cand if o[0] not in ("mk", "mx", "vx")] or cand
                o = rng.choice(cand)
                seq.append(o)
                st = q_shape_step(st, o)
            yield q_case(3, seq), "q-reentrant-rand"
        oa = o_alphabet(2, ["", "a"], full=False)
        for seq in itertools.product(oa, repeat=3):
            yield o_case("c", 2, list(seq)), "o-exh3-counting"
        for seq in itertools.product(oa, repeat=2):
            yield o_case("s", 2, list(seq)), "o-exh2-string"
        # every payload kind (bool, int, constructible-from-anything, convertible-from-bool, string, counting) x every
        # source category, depth 2 (thorough: depth 3 on the copy paths)
        for kind in "bifasc":
            oc = o_alphabet(2, KIND_VALUES[kind][:2], full=True, cats=True)
            for seq in itertools.product(oc, repeat=2):
                yield o_case(kind, 2, list(seq)), "o-exh2-all-categories"
        if not quick:
            for kind in "bia":
                oc = [o for o in o_alphabet(2, KIND_VALUES[kind][:2], full=True, cats=True) if o[0] in ("va", "an", "ar", "cn", "cr", "ae", "rd", "rm", "rp")]
                for seq in itertools.product(oc, repeat=3):
                    yield o_case(kind, 2, list(seq)), "o-exh3-copy-paths"
        if not quick:
            oaf = o_alphabet(2, ["", "a"], full=True)
            for seq in itertools.product(oaf, repeat=3):
                yield o_case("s", 2, list(seq)), "o-exh3-string-all-overloads"
        # (ii) random, mostly applicable
        alpha = q_alphabet(3, 3, 3)
        nq = 3000 if quick else 40000
        for n in range(nq):
            L = rng.randint(12, 20)
            st = ((False,) * 3, 0)
            seq = []
            for _ in range(L):
                if rng.random() < 0.9:
                    cand = [o for o in alpha if q_applicable(st, o)]
                    # makes are over-represented in the alphabet: damp them once something is alive
                    if any(st[0]) and rng.random() < 0.6:
                        cand2 = [o for o in cand if o[0] != "mk"]
                        cand = cand2 or cand
                    o = rng.choice(cand)
                else:
                    o = rng.choice(alpha)
                seq.append(o)
                st = q_shape_step(st, o)
            yield q_case(3, seq), "q-rand"
        # (iii) malformed: any operation at any time, also on slots that do not exist
        wild = q_alphabet(4, 3, 4)
        for n in range(500 if quick else 5000):
            seq = [rng.choice(wild) for _ in range(rng.randint(1, 14))]
            yield q_case(3, seq), "q-wild"
        no = 3000 if quick else 40000
        for n in range(no):
            P = 3
            kind = rng.choice("scbifa")
            L = rng.randint(1, 16)
            seq = []
            for _ in range(L):
                k = rng.random()
                i, j = rng.randrange(P), rng.randrange(P)
                if k < 0.3:
                    if kind in "sca":
                        m = rng.choice([0, 0, 1, 2, 5, 40, 300])
                        v = "".join(chr(rng.choice([0, 1, 0x20, 0x41, 0x61, 0x7f, 0x80, 0xff, rng.randrange(256)])) for _ in range(m))
                    elif kind == "i":
                        v = str(rng.choice([0, 1, -1, 7, -2147483648, 2147483647, rng.randint(-10 ** 6, 10 ** 6)]))
                    else:
                        v = rng.choice(["\x00", "\x01"])
                    seq.append((rng.choice(VAL_OPS_ALL), i, hx(v)))
                elif k < 0.55:
                    seq.append((rng.choice(["as", "an", "ar"]), i, j))
                elif k < 0.7:
                    seq.append((rng.choice(["cc", "cn", "cr"]), i, j))
                elif k < 0.8:
                    seq.append(("ae", i))
                elif k < 0.85:
                    seq.append(("dc", i))
                else:
                    seq.append((rng.choice(READ_OPS_ALL), i))
            yield o_case(kind, P, seq), "o-rand"

    # ------------------------------------------------------------ classification
    def nontrivial(self, case, mobs, iobs):
        w = case.split()
        if w[0] == "q":
            steps = iobs.split(";")
            destroyed_early = any("d:" in s for s in steps[:-1] if not s.startswith("fin"))
            moved = any(o.split(".")[0] in ("mc", "ma", "vp", "vt", "sw") for o in w[2].split(","))
            return destroyed_early and moved
        if w[0] == "o":
            return any(o.split(".")[0] in COPY_OPS_ALL for o in w[3].split(","))
        return False

    def signature(self, case, mobs, iobs):
        w = case.split()
        ops = w[2] if w[0] == "q" else w[3]
        kinds = tuple(sorted(set(o.split(".")[0] for o in ops.split(","))))
        return (w[0], w[1] if w[0] == "o" else "", kinds, min(ops.count(","), 24) // 4, "raise" in iobs, iobs.count("d:") > 0)

    def shrink(self, case):
        w = case.split()
        if w and w[-1] == "lsan":
            yield " ".join(w[:-1])
            w = w[:-1]
        k = 2 if w[0] == "q" else 3
        ops = w[k].split(",") if w[k] != "." else []
        for i in range(len(ops)):
            rest = ops[:i] + ops[i + 1:]
            yield " ".join(w[:k] + [",".join(rest) if rest else "."])
        if w[0] == "o":
            for i, o in enumerate(ops):
                f = o.split(".")
                if len(f) == 3 and f[0][0] == "v" and f[2] != "-":
                    for j in range(0, len(f[2]), 2):
                        nv = (f[2][:j] + f[2][j + 2:]) or "-"
                        yield " ".join(w[:k] + [",".join(ops[:i] + [".".join(f[:2] + [nv])] + ops[i + 1:])])


CHECK = C18

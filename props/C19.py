# props/C19.py — nitro::env::get ("e" cases, own driver) and nitro::dl ("d" cases, dl driver)
import hashlib, itertools, os, shutil
from lib import framework
from lib.framework import Check


def hx(s):
    return s.encode("latin-1").hex() if s else "-"


def opw(o):
    return ".".join(str(x) for x in o)


# ---------------------------------------------------------------- the two tiny shared objects
LIB_SRCS = ["harness/dl_lib_a.c", "harness/dl_lib_b.c"]


def _libs_dir():
    h = hashlib.sha256(b"defsym vdl_null=0 in a;")
    for s in LIB_SRCS:
        with open(os.path.join(framework.ROOT, s), "rb") as f:
            h.update(f.read())
    return os.path.join(framework.CACHE, "dl", h.hexdigest()[:16])


VDL_DIR = _libs_dir()


def build_libs():
    """libvdl_a.so / libvdl_b.so next to the harness cache (plain C, no sanitizer), keyed by source hash"""
    with framework.Lock("dl-libs"):
        if all(os.path.exists(os.path.join(VDL_DIR, n)) for n in ("libvdl_a.so", "libvdl_b.so")):
            return
        tmp = VDL_DIR + ".tmp"
        shutil.rmtree(tmp, ignore_errors=True)
        os.makedirs(tmp)
        for src, out in zip(LIB_SRCS, ("libvdl_a.so", "libvdl_b.so")):
            # library a also DEFINES a symbol whose value is NULL (absolute symbol): a successful look-up that yields a null address
            extra = ["-Wl,--defsym,vdl_null=0"] if out == "libvdl_a.so" else []
            rc, o = framework.sh(["gcc", "-shared", "-fPIC", "-O1"] + extra + ["-o", os.path.join(tmp, out), os.path.join(framework.ROOT, src)], timeout=300)
            if rc != 0:
                raise framework.BuildError("cannot build %s: %s" % (out, o))
        shutil.rmtree(VDL_DIR, ignore_errors=True)
        os.rename(tmp, VDL_DIR)


# ---------------------------------------------------------------- dl: generator-side shape tracking
# world of the harness (must agree with d_world in ocaml/own_driver.ml and with dl_driver.cpp):
#   file 0 = libvdl_a.so, 1 = libvdl_b.so, 2 = the program itself, >= 3 missing
#   symbol 0 = vdl_f (a, b), 1 = vdl_g (a, b and — a different function — the program), 2 = vdl_only_a (a),
#   3 = vdl_self (program), 4 = vdl_null (a; DEFINED with the value NULL: the look-up succeeds, it is never called), >= 5 missing
def lib_exists(f):
    return f < 3


def sym_exists(lib, s):
    return (lib < 2 and s < 2) or (lib == 0 and s in (2, 4)) or (lib == 2 and s in (1, 3))


def d_alphabet(P, files, syms, xs=(5,), scoped=None, reads=(0, 1, 2), cats="all"):
    """op/ld read the diagnostic in the handler; oq/lq ("quiet") do not — only offered where the operation fails;
    sc/sq: open + load with the dl object inside the try block (scratch slot t = i+1); rx.k: late read of exception k"""
    ops = []
    for i in range(P):
        for f in files:
            ops.append(("op", i, f))
            if not lib_exists(f):
                ops.append(("oq", i, f))
    for i in range(P):
        for j in range(P):
            if i != j:
                for s in syms:
                    ops.append(("ld", i, j, s))       # load on a named lvalue
                    if cats == "all" or (cats == "some" and s == syms[0]):
                        ops.append(("lm", i, j, s))       # load on std::move(named)
                        ops.append(("lg", i, j, s))       # symbol<T>(lib.get(), name): the public constructor
                        t = [x for x in range(P) if x not in (i, j)]
                        if t:
                            ops.append(("lt", i, j, t[0], s))   # load on a temporary copy (scratch slot t)
                    if s >= 5:
                        ops.append(("lq", i, j, s))
                ops += [("gt", i, j), ("cp", i, j), ("mv", i, j), ("sw", i, j)]
    for i in range(P):
        for j in range(P):
            ops += [("as", i, j), ("ma", i, j)]        # i == j: assignment to itself
    if scoped is None:
        scoped = [(f, s) for f in files for s in syms]
    for i in range(P):
        for (f, s) in scoped:
            ops += [("sc", i, (i + 1) % P, f, s), ("sq", i, (i + 1) % P, f, s)]
            if cats != "none":
                ops.append(("tc", i, (i + 1) % P, f, s))
    for k in reads:
        ops.append(("rx", k))
    for i in range(P):
        ops.append(("dr", i))
        for x in xs:
            ops.append(("cl", i, x))
    ops.append(("st", 1))
    return ops


# slot shape: None | (kind, lib)   kind in "LSR"; lib is None once the object was moved from (null shared_ptr)
def d_applicable(st, op):
    k = op[0]
    n = len(st)
    if k in ("op", "oq"):
        return op[1] < n and st[op[1]] is None
    if k in ("sc", "sq", "tc", "tq"):
        return op[1] < n and op[2] < n and op[1] != op[2] and st[op[1]] is None and st[op[2]] is None
    if k == "lt":
        return (op[1] < n and op[2] < n and op[3] < n and op[1] != op[3] and st[op[1]] is None and st[op[3]] is None
                and st[op[2]] is not None and st[op[2]][0] == "L" and st[op[2]][1] is not None)
    if k == "rx":
        return True
    if k in ("ld", "lq", "lm", "lg"):
        return op[1] < n and op[2] < n and st[op[1]] is None and st[op[2]] is not None and st[op[2]][0] == "L" and st[op[2]][1] is not None
    if k == "gt":
        return op[1] < n and op[2] < n and st[op[1]] is None and st[op[2]] is not None and st[op[2]][0] == "L"
    if k in ("cp", "mv"):
        return op[1] < n and op[2] < n and st[op[1]] is None and st[op[2]] is not None
    if k in ("as", "ma", "sw"):
        return op[1] < n and op[2] < n and st[op[1]] is not None and st[op[2]] is not None and st[op[1]][0] == st[op[2]][0]
    if k == "dr":
        return op[1] < n and st[op[1]] is not None
    if k == "cl":
        return op[1] < n and st[op[1]] is not None and st[op[1]][0] == "S" and st[op[1]][1] is not None
    return k == "st"


def d_shape_step(st, op):
    if not d_applicable(st, op):
        return st
    st = list(st)
    k = op[0]
    if k in ("op", "oq"):
        if lib_exists(op[2]):
            st[op[1]] = ("L", op[2])
    elif k in ("sc", "sq", "tc", "tq"):
        if lib_exists(op[3]) and sym_exists(op[3], op[4]):
            st[op[1]] = ("S", op[3])
    elif k == "lt":
        lib = st[op[2]][1]
        if sym_exists(lib, op[4]):
            st[op[1]] = ("S", lib)
    elif k in ("ld", "lq", "lm", "lg"):
        lib = st[op[2]][1]
        if sym_exists(lib, op[3]):
            st[op[1]] = ("S", lib)
    elif k == "gt":
        st[op[1]] = ("R", st[op[2]][1])
    elif k in ("cp", "as"):
        st[op[1]] = st[op[2]]
    elif k in ("mv", "ma"):
        if op[1] != op[2]:
            st[op[1]] = st[op[2]]
            st[op[2]] = (st[op[2]][0], None)
    elif k == "sw":
        st[op[1]], st[op[2]] = st[op[2]], st[op[1]]
    elif k == "dr":
        st[op[1]] = None
    return tuple(st)


def d_exhaustive(P, files, syms, depth, scoped=(), reads=(), cats="none"):
    ops = d_alphabet(P, files, syms, scoped=list(scoped), reads=reads, cats=cats)

    def rec(st, d, acc):
        if d == 0:
            yield acc
            return
        for o in ops:
            if d_applicable(st, o):
                yield from rec(d_shape_step(st, o), d - 1, acc + [o])
    yield from rec((None,) * P, depth, [])


def d_pick(rng, alpha, st, want=None):
    """a random applicable operation (of one of the wanted kinds if any is applicable): rejection sampling, then a scan"""
    for _ in range(40):
        o = rng.choice(alpha)
        if (want is None or o[0] in want) and d_applicable(st, o):
            return o
    cand = [o for o in alpha if d_applicable(st, o)]
    if want is not None:
        c2 = [o for o in cand if o[0] in want]
        cand = c2 or cand
    return rng.choice(cand)


def d_case(P, seq):
    return "d %d %s" % (P, ",".join(opw(o) for o in seq) if seq else ".")


def hold(form, subs):
    """a result-holding group: the results of all gets among `subs` are observed only after every sub-operation was made
    (form r: const std::string& bindings, a: auto&& bindings, m: alternately, c: arguments of one call expression)"""
    return ("h" + form,) + tuple(":".join(str(x) for x in o) for o in subs)


def e_flat(op_word):
    """the plain operations of one op word of an "e" case, as field lists (a holding group contributes its sub-operations)"""
    f = op_word.split(".")
    if len(f[0]) == 2 and f[0][0] == "h":
        return [x.split(":") for x in f[1:]]
    return [f]


def e_case(seq):
    return "e %s" % (",".join(opw(o) for o in seq) if seq else ".")


class C19(Check):
    prop = "C19"
    vfiles = ["Properties/Properties_C19.v", "Extract/Extract_Own.v"]
    cpp = None
    cpps = {
        "own": dict(name="own", driver_src="harness/own_driver.cpp", repo_srcs=["src/env/get.cpp"]),
        "dl": dict(name="dl", driver_src="harness/dl_driver.cpp",
                   libs=["-ldl", "-rdynamic", "-Wl,--wrap=dlopen,--wrap=dlsym,--wrap=dlclose"],
                   defines=['VDL_DIR="%s"' % VDL_DIR]),
    }
    ocaml = dict(name="own", extracted="own_model.ml", glue=("glue_base.ml",))
    corpus = "C19.txt"
    design_ref = "DESIGN.md section 6, C19 — environment and dlopen wrappers"
    technique = ("Coq proof over executable models of env/get.cpp and dl/dl.hpp, symbol.hpp, exception.hpp (use-count invariant over "
                 "arbitrary operation lists, for every world of existing files/symbols) + extraction-based differential test against "
                 "the C++: setenv/unsetenv for env::get, and real dlopen of two tiny shared objects and of the program itself with "
                 "dlopen/dlsym/dlclose counted per handle through linker --wrap")
    level_text = ("Twenty-five theorems proved in Coq. env::get: for EVERY getenv function, name and default — a set variable yields its "
                  "exact value also when that is the empty string, an unset one yields the default, the no-default form raises "
                  "exactly when unset; the result of a get is a value — over ALL histories of setenv / unsetenv / the three gets / late reads, a "
                  "held result keeps the outcome it had when get returned whatever gets and environment changes follow, two held results are independent. dl: for ALL lists of open / load / get / copy-construct / move-construct / copy-assign / "
                  "move-assign / swap / destroy / call operations and every world — dlclose is called at most once per handle and never on NULL, a handle is closed exactly when no owner "
                  "(library object, symbol, raw handle, or a copy / assignment target of either) is left, an assignment makes the "
                  "target hold the source's handle and function and releases its previous one, a moved-from object owns nothing, "
                  "a call through an owning symbol always finds the library of the function it holds mapped, a failed open creates and closes nothing and raises the dl exception with the "
                  "loader's diagnostic, a failed look-up raises likewise and leaves every handle and owner unchanged, a caught exception "
                  "carries the diagnostic of its own failure and returns the same text whenever it is read, whatever loader "
                  "operations happen in between, a stale "
                  "pending loader error does not disturb a successful look-up, and after the last owner is gone every library "
                  "ever opened has been closed exactly once. The models follow the constructors statement by statement and are "
                  "tied to /repo by running extracted models and real code (ASan/UBSan build of the working tree) on the same "
                  "exhaustive + random cases, diffing the per-handle dlclose counts and owners after every step")
    level_note = ("trusted: Coq kernel, ExtrOcamlBasic extraction, OCaml compiler, the differential harness, the --wrap counting "
                  "wrappers. ASSUMED, not verified: the reference counting in the real program is std::shared_ptr's (copy +1, "
                  "destroy -1, deleter run once by the last owner, also for a null pointer that carries a deleter) — the model "
                  "writes it out; getenv/setenv/unsetenv and dlopen/dlsym/dlclose/dlerror are the assumed environment (the model's "
                  "dlerror keeps a pending error across successful calls as POSIX allows; glibc drops it at the next dl call, so "
                  "on this platform the 'clear before dlsym' statement is not observable and a mutant removing it is NOT caught). "
                  "What nitro adds — the null checks in env::get, the null-guarded dlclose deleter, the symbol keeping a copy of "
                  "the handle, the exception capturing dlerror() — is modelled, proved, and exercised by the drivers. Names are "
                  "restricted to non-empty byte strings without NUL and '=' (others cannot be set), values to bytes without NUL. "
                  "dl and symbol have only implicit (member-wise) copy/move operations; the model writes them out, including "
                  "assignment onto itself (libstdc++'s shared_ptr self-move-assignment is a no-op) and the moved-from state (null "
                  "shared_ptr, function pointer kept, never called by the driver). Which handle a symbol object keeps alive is not "
                  "readable through the public API: the driver's 'S<h>' is bookkeeping (get() of the library object at load time, "
                  "carried along copies/assignments as value semantics demands) — a symbol that owns the wrong library shows up in "
                  "the per-handle dlclose counts and in 'unmapped' calls, which are observed directly. "
                  "The model has ONE load (on the handle); the value category of the library object load() is called on — named "
                  "lvalue, std::move(named), a temporary copy, a temporary built from the file name — is a driver-side dimension "
                  "(load() is not const, so a const library object cannot load). Symbol vdl_g exists in the libraries AND, as a "
                  "different function, in the -rdynamic host program, so a look-up that searches the global scope instead of the "
                  "library is seen in the call result; dlsym(NULL, ...) is also counted by the wrapper. "
                  "Library a defines vdl_null with the value NULL (-Wl,--defsym): its look-up must succeed (the symbol object exists and owns "
                  "the library; it is never called), also right after a failed look-up and after a stale loader error. The correspondence is bounded-exhaustive + sampled, "
                  "not proved.")
    rule = ("env: every sequence of depth 3 (thorough: 4) over {setenv, unsetenv, get with default, get with the defaulted default, "
            "get without default} x 2 names x values/defaults {'', 'x'}, then random sequences with names and values over arbitrary "
            "non-NUL bytes (values also empty and up to 20 000 bytes; thorough 200 000), fixed cases with values of 64 KiB-70 000 bytes "
            "(thorough: 300 000 and 1 100 000) and names of 300 and 5000 bytes through all three overloads, defaults equal to / different from the "
            "value; result-holding forms: results of two (exhaustive over 9 environments x 2 names x every overload) or three (random) get calls held at the "
            "same time as const std::string& / auto&& bindings or as the arguments of one call expression, and results held across setenv / "
            "unsetenv of the same variable, all observed only after the last sub-operation; dl: every applicable sequence of depth 3 (thorough: also depth 4 without the scoped/quiet/read operations) over {open a / b / missing, load existing / only-in-a / "
            "missing symbol — each on a named library object, on std::move(named), on a temporary copy and on a temporary built from the "
            "file name —, get, copy-construct, move-construct, copy-assign, move-assign (both also onto itself), swap, destroy, "
            "call, stale error} on a pool of 3 owners, then random sequences of length <= 10 (thorough <= 16) on a pool of 4 that "
            "also open the program itself, biased towards symbols outliving their library object, and structured sequences: two "
            "library objects (same or different files) with a symbol each, then assignments / swaps between the existing objects, "
            "destructions in random order and calls through every surviving symbol; and failure sequences: several failed opens / "
            "look-ups with different names, inside and outside a scope that also destroys the dl object during unwinding, whose "
            "exception objects are copied out of the handler and whose dlerror()/what() are read at once and/or only after "
            "further loader operations, and read again. The state (dlclose count per handle, owners, dlclose(NULL) count) is observed after EVERY step. "
            "Non-trivial: an env case that reads a variable that is set at that moment, or set to ''; a dl case in which a library "
            "object is destroyed while a symbol or copy still owns the handle, or in which an open/look-up fails. "
            "distinct = distinct case line")
    modelled_note = ("modelled, not verified: std::shared_ptr use counting and deleter invocation (incl. on a null pointer with a "
                     "deleter), getenv/setenv/unsetenv, dlopen/dlsym/dlclose/dlerror; the dl::dl(self_tag) constructor shares the "
                     "model of dl::dl(filename)")

    def __init__(self):
        build_libs()

    def route(self, case):
        return "dl" if case.startswith("d ") else "own"

    # ------------------------------------------------------------ cases
    def cases(self, tier, rng):
        quick = tier == "quick"
        # ---- env, exhaustive
        names = ["VQA", "VQB"]
        vals = ["", "x"]
        ea = []
        for n in names:
            for v in vals:
                ea.append(("s", hx(n), hx(v)))
                ea.append(("g", hx(n), hx(v)))
            ea += [("u", hx(n)), ("d", hx(n)), ("n", hx(n))]
        for seq in itertools.product(ea, repeat=3 if quick else 4):
            yield e_case(list(seq)), "env-exh"
        # ---- env, random
        def rname():
            m = rng.randint(1, 12)
            body = "".join(chr(rng.choice([c for c in (rng.randrange(1, 256), 0x41, 0x5f, 0x20, 0xff, 0x80) if c != 0x3d])) for _ in range(m))
            return "VQ" + body
        def rval(big):
            k = rng.random()
            if k < 0.2:
                return ""
            if k < 0.9:
                return "".join(chr(rng.randrange(1, 256)) for _ in range(rng.randint(1, 40)))
            # long value: random non-NUL bytes (randbytes is fast), sprinkled with '=', blanks and line breaks
            raw = bytes((b or 0x3d) for b in rng.randbytes(rng.randint(1000, big)))
            return raw.decode("latin-1")
        big = 20000 if quick else 200000
        for _ in range(2000 if quick else 20000):
            pool = [rname() for _ in range(rng.randint(1, 3))]
            cur = {}
            seq = []
            for _ in range(rng.randint(1, 10)):
                n = rng.choice(pool)
                k = rng.random()
                if k < 0.3:
                    v = rval(big)
                    cur[n] = v
                    seq.append(("s", hx(n), hx(v)))
                elif k < 0.4:
                    cur.pop(n, None)
                    seq.append(("u", hx(n)))
                elif k < 0.7:
                    d = rng.choice([cur.get(n, "dflt"), "", "default", rval(2000)])
                    seq.append(("g", hx(n), hx(d)))
                elif k < 0.8:
                    seq.append(("d", hx(n)))
                else:
                    seq.append(("n", hx(n)))
            yield e_case(seq), "env-rand"
        # ---- env, result-holding forms: two results held at the same time, every overload x set / set to "" / unset,
        #      as const std::string& / auto&& bindings and as the arguments of one call expression
        hn = ["VQA", "VQB"]
        def gets(n, pos):
            return [("g", hx(n), hx("dflt%d" % pos)), ("g", hx(n), hx("")), ("d", hx(n)), ("n", hx(n))]
        envs = [[a, b] for a in ([("u", hx("VQA"))], [("s", hx("VQA"), hx(""))], [("s", hx("VQA"), hx("alpha"))])
                for b in ([("u", hx("VQB"))], [("s", hx("VQB"), hx(""))], [("s", hx("VQB"), hx("beta"))])]
        for env in envs:
            pre = [o for part in env for o in part]
            for n1 in hn:
                for n2 in hn:
                    for g1 in gets(n1, 1):
                        for g2 in gets(n2, 2):
                            for form in "rac":
                                yield e_case(pre + [hold(form, [g1, g2])]), "env-hold2"
        # a result held across setenv / unsetenv of the SAME variable, and across a further get of it
        for form in "ram":
            for st in ([("u", hx("VQA"))], [("s", hx("VQA"), hx(""))], [("s", hx("VQA"), hx("alpha"))]):
                for g1 in gets("VQA", 1):
                    for mid in (("s", hx("VQA"), hx("changed")), ("s", hx("VQA"), hx("")), ("u", hx("VQA"))):
                        for g2 in gets("VQA", 2) + [None]:
                            yield e_case(st + [hold(form, [g1, mid] + ([g2] if g2 else []))] + [("n", hx("VQA"))]), "env-hold-across-change"
        # three results at once, random overloads / states / values (also long values and defaults), sets and unsets in between
        for _ in range(600 if quick else 6000):
            pool = [rname() for _ in range(rng.randint(1, 3))]
            seq = []
            for n in pool:
                if rng.random() < 0.7:
                    seq.append(("s", hx(n), hx(rval(3000) if rng.random() < 0.8 else "")))
            for _ in range(rng.randint(1, 3)):
                form = rng.choice("ramc")
                subs = []
                ng = rng.randint(2, 3)
                k = 0
                while k < ng:
                    n = rng.choice(pool)
                    r = rng.random()
                    if form != "c" and r < 0.25:
                        subs.append(("s", hx(n), hx(rval(3000))) if rng.random() < 0.6 else ("u", hx(n)))
                        continue
                    k += 1
                    if r < 0.55:
                        subs.append(("g", hx(n), hx(rng.choice(["", "dflt", rval(3000)]))))
                    elif r < 0.75:
                        subs.append(("d", hx(n)))
                    else:
                        subs.append(("n", hx(n)))
                seq.append(hold(form, subs))
                if rng.random() < 0.5:
                    n = rng.choice(pool)
                    seq.append(rng.choice([("s", hx(n), hx(rval(3000))), ("u", hx(n)), ("n", hx(n)), ("g", hx(n), hx("dflt"))]))
            yield e_case(seq), "env-hold-rand"
        # ---- env, sizes beyond the sampled range: values of 64 KiB and more (also '='-laden), names of 300 and 5000 bytes,
        #      each read through all three overloads, changed, read again, unset, read again
        for vlen in (65535, 65536, 70001) + (() if quick else (300000, 1100000)):
            v = bytes((b or 0x3d) for b in rng.randbytes(vlen)).decode("latin-1")
            n = "VQBIG"
            yield e_case([("g", hx(n), hx("d")), ("s", hx(n), hx(v)), ("g", hx(n), hx("d")), ("d", hx(n)), ("n", hx(n)),
                          ("s", hx(n), hx(v[:5])), ("n", hx(n)), ("u", hx(n)), ("g", hx(n), hx(v[:70000])), ("n", hx(n))]), "env-big"
        for nlen in (300, 5000):
            n = "VQ" + "".join(chr(rng.choice([0x41, 0x5f, 0x7a, 0xe4])) for _ in range(nlen))
            yield e_case([("n", hx(n)), ("s", hx(n), hx("")), ("n", hx(n)), ("d", hx(n)), ("g", hx(n), hx("x")), ("u", hx(n)), ("d", hx(n))]), "env-big"
        # ---- env, names that cannot be variables: empty, containing '=' (never set; must behave as unset)
        for n in ["", "=", "VQA=1", "=VQA"]:
            yield e_case([("g", hx(n), hx("d")), ("n", hx(n)), ("d", hx(n))]), "env-odd-name"
        # ---- dl, exhaustive applicable-only
        for seq in d_exhaustive(3, (0, 1, 5), (0, 2, 7), 3, scoped=[(0, 7), (5, 0)], reads=(0,)):
            yield d_case(3, seq), "dl-exh"
        # every value category of the library object load() is called on, followed by one more operation (call / destroy / ...)
        for seq in d_exhaustive(3, (0, 1, 2), (0, 1, 3, 4, 7), 3 if not quick else 2, scoped=[(0, 0), (0, 1), (1, 1), (2, 1), (0, 4), (0, 7)], cats="all"):
            yield d_case(3, seq), "dl-exh-load-categories"
        if not quick:
            for seq in d_exhaustive(3, (0, 1, 5), (0, 2, 7), 4):
                yield d_case(3, seq), "dl-exh4"
        # ---- dl, random
        alpha = d_alphabet(4, (0, 1, 2, 5, 6), (0, 1, 2, 3, 4, 7, 8), xs=(0, 5, 11))
        for _ in range(4000 if quick else 40000):
            L = rng.randint(3, 10 if quick else 16)
            st = (None,) * 4
            seq = []
            for _ in range(L):
                if rng.random() < 0.92:
                    # prefer loads/copies while a library object exists, and dropping library objects that still have dependants
                    r = rng.random()
                    if r < 0.35:
                        o = d_pick(rng, alpha, st, ("ld", "lm", "lg", "lt", "tc", "cp", "gt", "mv", "as", "ma", "sw"))
                    elif r < 0.55:
                        o = d_pick(rng, alpha, st, ("dr", "cl", "rx"))
                    else:
                        o = d_pick(rng, alpha, st)
                else:
                    o = rng.choice(alpha)
                seq.append(o)
                st = d_shape_step(st, o)
            yield d_case(4, seq), "dl-rand"
        # ---- dl, structured: two library objects (same or different files) with a symbol each, then assignments / swaps
        #      between the existing objects, destructions in random order and calls through whatever symbols survive
        alpha5 = d_alphabet(5, (0, 1, 2), (0, 1, 2, 3), xs=(1, 7))
        good_sym = {0: (0, 1, 2, 4), 1: (0, 1), 2: (3,)}
        for _ in range(2500 if quick else 25000):
            fa, fb = rng.choice([0, 1, 2]), rng.choice([0, 1, 2])
            seq = [("op", 0, fa), ("op", 1, fb), ("ld", 2, 0, rng.choice(good_sym[fa])), ("ld", 3, 1, rng.choice(good_sym[fb]))]
            st = (None,) * 5
            for o in seq:
                st = d_shape_step(st, o)
            for _ in range(rng.randint(3, 8)):
                r = rng.random()
                if r < 0.4:
                    want = ("as", "ma", "sw")
                elif r < 0.7:
                    want = ("dr",)
                elif r < 0.9:
                    want = ("cl",)
                else:
                    want = ("cp", "mv", "gt", "ld", "lm", "op", "st")
                o = d_pick(rng, alpha5, st, want)
                seq.append(o)
                st = d_shape_step(st, o)
            for i in range(5):
                if st[i] is not None and st[i][0] == "S" and st[i][1] is not None:
                    seq.append(("cl", i, 3))
            yield d_case(5, seq), "dl-assign"
        # ---- dl, structured: several failures (different missing files / symbols, in and outside a scope), whose diagnostics
        #      are read at once or only LATER, after further loader operations, and then read again
        for _ in range(1500 if quick else 15000):
            st = (None,) * 4
            seq = []
            nexc = 0
            def push(o):
                nonlocal st
                seq.append(o)
                st = d_shape_step(st, o)
            if rng.random() < 0.7:
                push(("op", 0, rng.choice([0, 1, 2])))
            for _ in range(rng.randint(1, 4)):
                r = rng.random()
                q = rng.random() < 0.7
                if r < 0.35:
                    free = [i for i in range(4) if st[i] is None]
                    if free:
                        push(("oq" if q else "op", rng.choice(free), rng.choice([5, 6, 7, 8])))
                        nexc += 1
                elif r < 0.6 and st[0] is not None and st[0][0] == "L" and st[0][1] is not None:
                    free = [i for i in range(1, 4) if st[i] is None]
                    if free:
                        push(("lq" if q else "ld", rng.choice(free), 0, rng.choice([7, 8, 9])))
                        nexc += 1
                else:
                    free = [i for i in range(4) if st[i] is None and st[(i + 1) % 4] is None]
                    if free:
                        i = rng.choice(free)
                        f, sy = rng.choice([(0, 7), (1, 8), (1, 2), (2, 9), (5, 0), (6, 1)])
                        push(("sq" if q else "sc", i, (i + 1) % 4, f, sy))
                        nexc += 1
                # loader activity in between: successful open / load / call / close
                for _ in range(rng.randint(0, 3)):
                    push(d_pick(rng, alpha, st, ("op", "ld", "lm", "cl", "dr", "sc", "tc", "cp")))
            ks = list(range(nexc + 1))
            rng.shuffle(ks)
            for k in ks:
                push(("rx", k))
            for k in ks[:2]:
                push(("rx", k))
            yield d_case(4, seq), "dl-exc"
        # ---- dl, malformed: anything at any time, also slots that do not exist
        wild = d_alphabet(5, (0, 1, 2, 5), (0, 2, 3, 7))
        for _ in range(300 if quick else 3000):
            yield d_case(4, [rng.choice(wild) for _ in range(rng.randint(1, 10))]), "dl-wild"

    # ------------------------------------------------------------ classification
    def nontrivial(self, case, mobs, iobs):
        w = case.split()
        if w[0] == "e":
            # a get whose variable is set at that moment (tracked on the case text)
            cur = set()
            for o in (w[1].split(",") if w[1] != "." else []):
                for f in e_flat(o):
                    if f[0] == "s":
                        cur.add(f[1])
                    elif f[0] == "u":
                        cur.discard(f[1])
                    elif f[1] in cur:
                        return True
            return False
        if w[0] == "d":
            if "raise" in iobs:
                return True
            # a library object destroyed while something else keeps the handle: some step shows no L for a handle that is still open
            for s in iobs[2:].split(";"):
                p = s.split("|")
                if len(p) == 4 and p[1] != ".":
                    hsl = p[1].split(",")
                    owners = p[2].split(",")
                    for h, rec in enumerate(hsl):
                        if rec.endswith(":0") and ("L%d" % h) not in owners and any(o[1:] == str(h) for o in owners if o != "-"):
                            return True
            return False
        return False

    def signature(self, case, mobs, iobs):
        w = case.split()
        ops = w[1] if w[0] == "e" else w[2]
        kinds = tuple(sorted(set(o.split(".")[0] for o in ops.split(",")) |
                             (set("h:" + x.split(":")[0] for o in ops.split(",") if o[:1] == "h" for x in o.split(".")[1:]) if w[0] == "e" else set())))
        closed_early = any(":1" in st for st in iobs.split(";")[:-1])
        return (w[0], kinds, min(ops.count(","), 16) // 2, "raise" in iobs, closed_early, min(len(case) // 64, 8))

    def shrink(self, case):
        w = case.split()
        k = 1 if w[0] == "e" else 2
        ops = w[k].split(",") if w[k] != "." else []
        for i in range(len(ops)):
            rest = ops[:i] + ops[i + 1:]
            yield " ".join(w[:k] + [",".join(rest) if rest else "."])
        if w[0] == "e":
            # a holding group: without one sub-operation; with the same sub-operations made one after the other
            for i, o in enumerate(ops):
                f = o.split(".")
                if len(f[0]) == 2 and f[0][0] == "h":
                    if len(f) > 3 or (len(f) > 2 and f[0] != "hc"):
                        for j in range(1, len(f)):
                            yield " ".join(w[:k] + [",".join(ops[:i] + [".".join(f[:j] + f[j + 1:])] + ops[i + 1:])])
                    yield " ".join(w[:k] + [",".join(ops[:i] + [x.replace(":", ".") for x in f[1:]] + ops[i + 1:])])
                    for j in range(1, len(f)):
                        g = f[j].split(":")
                        if len(g) == 3 and g[2] != "-" and len(g[2]) > 2:
                            for nv in ((g[2][:len(g[2]) // 4 * 2], g[2][len(g[2]) // 4 * 2:]) if len(g[2]) > 16 else [g[2][:-2]]):
                                yield " ".join(w[:k] + [",".join(ops[:i] + [".".join(f[:j] + [":".join(g[:2] + [nv or "-"])] + f[j + 1:])] + ops[i + 1:])])
            # shorten values / defaults (halve, then byte by byte when short)
            for i, o in enumerate(ops):
                f = o.split(".")
                if f[0][:1] == "h":
                    continue
                if len(f) == 3 and f[2] != "-":
                    v = f[2]
                    cands = []
                    if len(v) > 16:
                        cands += [v[:len(v) // 4 * 2], v[len(v) // 4 * 2:]]
                    else:
                        cands += [(v[:j] + v[j + 2:]) or "-" for j in range(0, len(v), 2)]
                    for nv in cands:
                        yield " ".join(w[:k] + [",".join(ops[:i] + [".".join(f[:2] + [nv or "-"])] + ops[i + 1:])])


CHECK = C19

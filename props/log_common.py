# props/log_common.py — shared by props/C05.py and props/C10.py (and by gen/gen_log_harness.py):
# the logger table the generated C++ program instantiates, the wire format of log programs, the case generators.
import itertools, os
from lib import framework
from lib.framework import Check

SEVS = ["trace", "debug", "info", "warn", "error", "fatal"]

# (filter expression in prefix notation, number of members of the sink::sequence, record type)
#   Z = null_filter, T<k> = severity_filter<Record,k>, A = and_filter, O = or_filter, N = not_filter
#   record type A = record<tag, message, severity, timestamp>; B = record<message, severity, timestamp, extra> (NO tag attribute).
#   severity_filter<RecA,k> and severity_filter<RecB,k> are different class template instances with their own thresholds.
#   sink shape: a tree of sink::sequence; leaves by the way their sink() takes the text:
#     c  sink(severity_level, const std::string&)      v  sink(severity_level, std::string)  (by value)
#     r  overloads for const std::string& and std::string&& (the latter adopts the buffer);  ( … ) a sequence, possibly nested.
#   By-value / rvalue / nested members occur in first, middle and last position; 1-4 leaves.
LOGGERS = [
    ("Z", "(vcc)", "A"),
    ("T0", "(c)", "A"),
    ("NT0", "(cv)", "A"),
    ("AT0T1", "(cvc)", "A"),
    ("OT0T1", "(rc)", "A"),
    ("AT0NT1", "((cc)c)", "A"),      # band: T0 <= sev < T1
    ("ONT0T1", "(c(cc)c)", "A"),
    ("NAT0T1", "(c(cc))", "A"),
    ("NNT0", "(crc)", "A"),          # the not_filter<not_filter<F>> specialisation
    ("OAT0NT1NZ", "(cc)", "A"),      # depth 3, with a negated null filter
    ("T0", "(cr)", "B"),             # the same filter indices over another record type
    ("AT0NT1", "((vc)(cr))", "B"),
    # --- user-written filters that read the record's TAG (G<k>: passes exactly the records whose tag is TAGTEXT[k];
    #     H<k>: rejects exactly those, "mute this tag"), alone and under and/or/not with severity filters; towers of
    #     not_filter of depth 2 and 3 over every leaf kind (depth 0/1 are above).  These loggers instantiate the light shape set.
    ("H0", "(c)", "A"),              # mute tag "tg"
    ("G0", "(c)", "A"),              # only tag "tg"
    ("AT0H0", "(cv)", "A"),          # severity threshold AND not muted
    ("OT0G0", "(c)", "A"),           # severity threshold OR the tag "tg"
    ("NG0", "(c)", "A"),             # not over a tag leaf
    ("NNH0", "(c)", "A"),            # not<not<tag leaf>>
    ("NNNT0", "(c)", "A"),           # depth 3 over a threshold
    ("ONNNZAT0NNZ", "(c)", "A"),     # depth 3 and depth 2 over the null filter: or(false, and(T0, true))
    ("AG1T0", "(c)", "A"),           # only untagged (or empty-tag) statements at or above the threshold
    ("ANNNG0H1", "(c)", "A"),        # depth 3 over a tag leaf, AND tagged at all: tag neither "tg" nor empty
    ("AT0G1", "(c)", "B"),           # a record type WITHOUT tag attribute: its tag reads as empty whatever the statement says
]
GRID_LOGGERS = range(12)             # the loggers of the big deterministic grids
LIGHT_LOGGERS = range(12, len(LOGGERS))
TAGTEXT = ["tg", ""]                 # the texts the tag filters compare with
RECS = "AB"
KINDS = "SNC"            # structural item kinds: std::string, long long, callable
# C++ shapes of a streamed callable (LogModel.ckind; the model ignores them, the harness instantiates each):
#   o function object (temporary)      l lambda (temporary)               p plain function / function pointer
#   f std::function<std::string()> variable streamed as an lvalue         F std::function<std::string()> temporary
#   c std::function<const char*()> variable    k const function object (variable)    v lambda stored in a variable (lvalue)
# (a std::function returning a NUMBER is not a lazily evaluated callable for the library: is_callable<T, std::string()> is
#  false and `stream << f` does not compile, so it cannot be part of a statement)
CKINDS0 = "olpfFckv"
# callables whose call operator is NOT const (invocable in the value category in which they are streamed):
#   M mutable capturing lambda (temporary)     w function object with non-const operator() (temporary)   W the same, non-const variable
#   Q the same, const variable (operator<< calls its own by-value copy)     i non-const operator() AND non-explicit operator bool
#   (so it could also be inserted as a value), temporary     I the same, variable     j non-const operator() AND its own operator<<, variable
CKINDS1 = "MwWQiIj"
CKINDS = CKINDS0 + CKINDS1
# streamable objects (model: IObj, a value item with its rendering):  b derived object streamed through const Base& whose operator<<
#   calls a virtual function    u class with a deleted copy constructor    m class whose copies render differently from the original
OBJKINDS = "bum"
STRUCT_SHAPES = ["".join(t) for n in range(4) for t in itertools.product(KINDS, repeat=n)]   # 40 structural shapes
SHAPES = [s.replace("C", "o") for s in STRUCT_SHAPES]
NSLOTS = 4

# only the property, tie and extraction files: their dependencies (Log/*.v, Gen/GenSeverity.v) are built by make, and the
# obligations counted in the evidence are the property theorems and the tie obligations
VFILES = ["Extract/Extract_Log.v", "Tie/Tie_C05.v"]

# one-expression statement shapes instantiated per logger: all 40 for two loggers, a subset for the others
FULL_SHAPE_LOGGERS = (0, 5)
REDUCED_SHAPES = [s for s in SHAPES if len(s) <= 2] + ["SNo", "ooo", "oSo", "NoS"]
# every callable kind alone and after a string item, for every logger; for the two full loggers also every ordered pair of
# kinds and an lvalue std::function streamed twice
KIND_SHAPES = ([k for k in CKINDS0 if k != "o"] + ["S" + k for k in CKINDS0 if k != "o"] + list(CKINDS1) + ["S" + k for k in "iIj"]
               + ["b", "Sb", "u", "m"])
PAIR_SHAPES = ([a + b for a in CKINDS0 for b in CKINDS0 if a + b != "oo"] + ["fNf"] + [k + "o" for k in CKINDS1] + ["o" + k for k in CKINDS1]
               + ["bo", "ob", "mb", "bub", "Sm", "uS"])


# items that put the statement's std::stringstream into fail()/bad():  x  (const char*)nullptr   y  (std::streambuf*)nullptr
#   z  a user type whose operator<< sets failbit.  Before, between and after callables.
FAILKINDS = "xyz"
FAIL_SHAPES = ["x", "xo", "ox", "oxo", "yo", "zo", "oz"]
FAIL_SHAPES_FULL = [q + k for q in FAILKINDS for k in CKINDS0] + [k + q for q in FAILKINDS for k in CKINDS0] + ["oyo", "ozo", "xSo", "Sxo", "xx"]
# contexts a whole statement is executed in:  n straight-line code   u inside a destructor during stack unwinding
#   c inside a catch handler   d inside a destructor on normal scope exit
CONTEXTS = "nucd"


def _dedup(l):
    seen, out = set(), []
    for x in l:
        if x not in seen:
            seen.add(x)
            out.append(x)
    return out


LIGHT_SHAPES = REDUCED_SHAPES + ["l"]


def shapes_for(lg):
    if lg in LIGHT_LOGGERS:
        return _dedup(LIGHT_SHAPES)
    if lg in FULL_SHAPE_LOGGERS:
        return _dedup(SHAPES + KIND_SHAPES + PAIR_SHAPES + FAIL_SHAPES + FAIL_SHAPES_FULL)
    return _dedup(REDUCED_SHAPES + KIND_SHAPES + FAIL_SHAPES)


_SHAPE_SETS = {}


def has_shape(lg, sh):
    if lg not in _SHAPE_SETS:
        _SHAPE_SETS[lg] = set(shapes_for(lg))
    return sh in _SHAPE_SETS[lg]


def item_letter(it):
    return it[3] if it[0] == "C" else it[1] if it[0] in "XV" else it[0]


GEN_SRC = "harness/gen/log_driver.cpp"
GEN_STATIC = "harness/gen/log_static.cpp"
GEN_STATIC_EARLY = "harness/gen/log_static_early.cpp"   # the same, the minimum redefined after an early include of a log header


def ensure_generated():
    """(re)write the generated C++ program (one translation unit per logger + the case loop); it is compiled by
    lib.framework.build_cpp against /repo's current tree, once per compile-time minimum"""
    from gen import gen_log_harness
    srcs = gen_log_harness.sources()
    for p, t in srcs.items():
        framework.write_if_changed(os.path.join(framework.ROOT, p), t)
    return sorted(p for p in srcs if p not in (GEN_SRC, GEN_STATIC, GEN_STATIC_EARLY))


# the framework's flags with -O0 instead of -O1: the generated program instantiates ~1200 statement functions per binary
# and is rebuilt whenever /repo changes; -O0 compiles it 3-4x faster, the sanitizers instrument it all the same
FLAGS = ["-O0" if f == "-O1" else f for f in framework.CXXFLAGS]


def cpps():
    extra = ensure_generated()
    return {"m%d" % i: dict(name="log_m%d" % i, driver_src=GEN_SRC, extra_srcs=extra, flags=FLAGS,
                            defines=["NITRO_LOG_MIN_SEVERITY=%s" % SEVS[i], "VH_MIN=%d" % i])
            for i in range(6)}


def static_assert_check(ctx, prop):
    """compile harness/gen/log_static.cpp (static_asserts on decltype(L::sev()) for all loggers x severities) at each of the
    six minima against the current tree; a failing assertion is a violation whose replay is the stream-type query of that
    (logger, severity, minimum)"""
    import re
    from concurrent.futures import ThreadPoolExecutor

    def one(j):
        i, early = j % 6, j >= 6
        try:
            framework.build_cpp(name="log_static%s_m%d" % ("_early" if early else "", i), driver_src=GEN_STATIC_EARLY if early else GEN_STATIC,
                                flags=FLAGS, defines=["NITRO_LOG_MIN_SEVERITY=%s" % SEVS[i], "VH_MIN=%d" % i])
            return i, None
        except framework.BuildError as e:
            return i, ("[%s] " % (GEN_STATIC_EARLY if early else GEN_STATIC)) + str(e)
    with ThreadPoolExecutor(6) as ex:
        res = list(ex.map(one, range(12)))
    failed = [(i, e) for i, e in res if e is not None]
    ctx.setdefault("coverage_extra", {})["static_assert_programs"] = dict(compiled=12 - len(failed), failed=len(failed),
                                                                          asserts_per_program=6 * len(LOGGERS))
    if not failed:
        return
    i, err = failed[0]
    m = re.search(r"C10-STREAM-TYPE logger=(\d+) severity=(\d+) expected=(\w+)", err)
    payload = dict(property=prop, kind="static_assert", minimum=SEVS[i], program=err[1:err.index("]")], output=err[-3000:], n_failing_minima=len(failed), seed=ctx["seed"], tier=ctx["tier"])
    if m:
        lg, sv = int(m.group(1)), int(m.group(2))
        payload.update(case=case(i, [op_kind(lg, sv)]), expected_type=m.group(3),
                       broken="decltype(logger %d::%s()) at NITRO_LOG_MIN_SEVERITY=%s is not %s" % (lg, SEVS[sv], SEVS[i], m.group(3)))
        ctx["violations"].append(("", payload))
    else:
        payload["broken"] = "the static_assert program does not compile against this tree (not an assertion failure)"
        ctx["violations"].append((" no-failing-input-found", payload))


OCAML = dict(name="log", extracted="log_model.ml", glue=("glue_base.ml", "glue_z.ml", "log_lib.ml"))

# ------------------------------------------------------------------ wire format

def hx(s):
    return s.encode("latin-1").hex() if s else "-"


def lgw(i):
    return "%d/%s/%s/%s" % (i, LOGGERS[i][0], LOGGERS[i][1], LOGGERS[i][2])


def parse_sinks(s, i=0):
    """sink shape text -> nested lists / leaf letters"""
    if s[i] == "(":
        out, i = [], i + 1
        while s[i] != ")":
            m, i = parse_sinks(s, i)
            out.append(m)
        return out, i + 1
    return s[i], i + 1


def rec_of(lg):
    return LOGGERS[lg][2]


def tagw(t):
    return "~" if t is None else hx(t)


def itemw(it):
    k = it[0]
    if k == "S":
        return "S" + hx(it[1])
    if k == "N":
        return "N%d" % it[1]
    if k == "X":
        return "X" + it[1]
    if k == "V":
        return "V" + it[1] + hx(it[2])
    return "C%s%d.%s" % (it[3], it[1], hx(it[2]))


def itemsw(its):
    return ",".join(itemw(i) for i in its) if its else "."


def op_set(rc, k, s):
    """severity_filter<Rec rc, k>::set_severity(s)"""
    return "T%s%d%d" % (rc, k, s)


def op_get(rc, k):
    """observe severity_filter<Rec rc, k>::min_severity()"""
    return "G%s%d" % (rc, k)


def op_one(lg, sv, tag, its, ctx="n"):
    """L::sv(tag) << its…;  executed in context ctx"""
    return "O%s:%s:%d:%s:%s" % ("" if ctx == "n" else ctx, lgw(lg), sv, tagw(tag), itemsw(its))


def op_local(lg, sv, tag, its, ctx="n"):
    """{ auto s = L::sv(tag); s << its…; }  executed in context ctx"""
    return "M%s:%s:%d:%s:%s" % ("" if ctx == "n" else ctx, lgw(lg), sv, tagw(tag), itemsw(its))


def op_moved(lg, sv, tag, its):
    """{ auto s = L::sv(tag); s << first half…; auto t = std::move(s); t << second half…; }"""
    return "R:%s:%d:%s:%s" % (lgw(lg), sv, tagw(tag), itemsw(its))


def op_bound(d, lg, sv, tag, its):
    """1: auto s = L::sv(tag) << first;   2: auto&& s = L::sv(tag);   3: auto&& s = L::sv(tag) << first;   then s << rest…;
    (for 1 and 3 the first item is a string, a number or a function object)"""
    return "B%d:%s:%d:%s:%s" % (d, lgw(lg), sv, tagw(tag), itemsw(its))


def op_direct(lg, sv, msg):
    """L::will_log(record of severity sv) observed, then L::log(sv, record with message msg) called directly"""
    return "D:%s:%d:%s" % (lgw(lg), sv, hx(msg))


def op_open(v, lg, sv, tag):
    return "N%d:%s:%d:%s" % (v, lgw(lg), sv, tagw(tag))


def op_put(v, it):
    return "P%d:%s" % (v, itemw(it))


def op_close(v):
    return "X%d" % v


def op_kind(lg, sv):
    return "K:%s:%d" % (lgw(lg), sv)


def stmt_ops(form, lg, sv, tag, its, v=0, ctx="n"):
    if form == "o":
        return [op_one(lg, sv, tag, its, ctx)]
    if ctx != "n" or form == "m":
        return [op_local(lg, sv, tag, its, ctx)]
    return [op_open(v, lg, sv, tag)] + [op_put(v, i) for i in its] + [op_close(v)]


def case(mn, ops):
    return "m%d %s" % (mn, " ".join(ops)) if ops else "m%d" % mn


# ------------------------------------------------------------------ python mirror of the filter formula (only used to classify cases)

def parse_f(s, i=0):
    c = s[i]
    if c == "Z":
        return ("Z",), i + 1
    if c == "T":
        return ("T", int(s[i + 1])), i + 2
    if c in "GH":
        return (c, int(s[i + 1])), i + 2
    if c == "N":
        a, j = parse_f(s, i + 1)
        return ("N", a), j
    a, j = parse_f(s, i + 1)
    b, k = parse_f(s, j)
    return (c, a, b), k


def holds(f, th, sv, tg=""):
    if f[0] == "Z":
        return True
    if f[0] == "T":
        return th[f[1]] <= sv
    if f[0] == "G":
        return tg == TAGTEXT[f[1]]
    if f[0] == "H":
        return tg != TAGTEXT[f[1]]
    if f[0] == "N":
        return not holds(f[1], th, sv, tg)
    if f[0] == "A":
        return holds(f[1], th, sv, tg) and holds(f[2], th, sv, tg)
    return holds(f[1], th, sv, tg) or holds(f[2], th, sv, tg)


FEXPRS = [parse_f(l[0])[0] for l in LOGGERS]


def thresholds_used(lg):
    f = LOGGERS[lg][0]
    return ("T0" in f, "T1" in f)


def threshold_settings(lg):
    """all threshold assignments that matter for this logger's filter (as op lists)"""
    u0, u1 = thresholds_used(lg)
    rc = rec_of(lg)
    r0 = range(6) if u0 else [None]
    r1 = range(6) if u1 else [None]
    for a in r0:
        for b in r1:
            yield ([op_set(rc, 0, a)] if a is not None else []) + ([op_set(rc, 1, b)] if b is not None else [])


# fixed item values per kind and position (the text/number/id differ by position so that order is visible)
def shape_items(shape, variant=0):
    out = []
    for p, k in enumerate(shape):
        if k == "S":
            out.append(("S", ["a", "b c", ""][(p + variant) % 3] if variant else "s%d" % p))
        elif k == "N":
            out.append(("N", [7, -12, 0, 9007199254740993][(p + variant) % 4]))
        elif k in FAILKINDS:
            out.append(("X", k))
        elif k in OBJKINDS:
            out.append(("V", k, "<%s%d>" % (k, p)))
        else:
            out.append(("C", p + 1 + 3 * variant, "<%d>" % (p + 1), k))
    return out


TAGS = [None, "tg"]

# ------------------------------------------------------------------ case generators

def single_statement_space(mins=range(6), ctxs=None, stride=None):
    """the complete finite space of single statements (all minima x loggers x relevant thresholds x severities x forms x tag x shapes);
    with ctxs: the same statements executed in a context taken in rotation from ctxs (named form = a local variable)"""
    n = 0
    for mn in mins:
        for lg in range(len(LOGGERS)):
            for pre in threshold_settings(lg):
                for sv in range(6):
                    for form in "on":
                        for tag in TAGS:
                            for sh in shapes_for(lg):
                                n += 1
                                if stride and n % stride != 1:
                                    continue          # (skipped before any text is built)
                                yield case(mn, pre + stmt_ops(form, lg, sv, tag, shape_items(sh), ctx=ctxs[n % len(ctxs)] if ctxs else "n"))


def quick_deterministic():
    """a large deterministic part of the space: every (minimum, logger, threshold setting, severity, form) with shapes and
    tags rotating so that each shape/tag meets each of them often; plus every shape x form x tag x severity x minimum under
    one fixed setting"""
    n = cell = 0
    for mn in range(6):
        for lg in GRID_LOGGERS:
            for pre in threshold_settings(lg):
                for sv in range(6):
                    cell += 1
                    for form in "on":
                        for r in range(2):
                            shs = shapes_for(lg)
                            sh = shs[(n * 7 + r * 13) % len(shs)]
                            tag = TAGS[(n + r) % 2]
                            n += 1
                            yield case(mn, pre + stmt_ops(form, lg, sv, tag, shape_items(sh))), "stmt-grid"
                        # every callable kind at every cell of the grid, in this form
                        # (each kind meets each cell in one of the two forms; the forms alternate with the kind and the cell)
                        for j, k in enumerate(CKINDS):
                            if (j + cell) % 2 != "on".index(form):
                                continue
                            sh = k if (n + j) % 2 or k in "MwWQ" else "S" + k
                            yield case(mn, pre + stmt_ops(form, lg, sv, TAGS[(n + j) % 2], shape_items(sh))), "kind-grid"
                        # every kind of streamable object at every cell
                        for j, k in enumerate(OBJKINDS):
                            if (j + cell) % 2 != "on".index(form):
                                continue
                            sh = k if (n + j) % 2 or k != "b" else "Sb"
                            yield case(mn, pre + stmt_ops(form, lg, sv, TAGS[(n + j) % 2], shape_items(sh))), "object-grid"
                        # the named stream moved into another variable half-way; will_log()/log() called directly
                        if form == "n":
                            shs = shapes_for(lg)
                            yield case(mn, pre + [op_moved(lg, sv, TAGS[n % 2], shape_items(shs[(n * 3 + 1) % len(shs)]))]), "moved-grid"
                            yield case(mn, pre + [op_direct(lg, sv, "d%d" % (n % 7))]), "direct-grid"
                            # declaration forms: a reference bound to a << chain (always) and one of the other two (rotating)
                            first = [("S", "f"), ("N", 5), ("C", 9, "g", "o")][n % 3]
                            rest = shape_items(shs[(n * 5 + 2) % len(shs)])
                            yield case(mn, pre + [op_bound(3, lg, sv, TAGS[n % 2], [first] + rest)]), "declaration-grid"
                            yield case(mn, pre + [op_bound(1 + n % 2, lg, sv, TAGS[(n + 1) % 2], [first] + rest)]), "declaration-grid"
                        # a failing insertion before / between / after callables at every cell
                        for j in range(2):
                            sh = FAIL_SHAPES[(n + 3 * j) % len(FAIL_SHAPES)]
                            yield case(mn, pre + stmt_ops(form, lg, sv, TAGS[(n + j) % 2], shape_items(sh))), "fail-grid"
                        # the statement executed during stack unwinding (always) and in one of the other contexts (rotating)
                        for ctx in ("u", "cd"[n % 2]):
                            shs = shapes_for(lg)
                            sh = shs[(n * 5 + 3) % len(shs)]
                            yield case(mn, pre + stmt_ops(form, lg, sv, TAGS[n % 2], shape_items(sh), ctx=ctx)), "context-grid"
    for mn in range(6):
        for sv in range(6):
            for form in "on":
                for tag in TAGS:
                    for lg, pre in ((5, [op_set("A", 0, 1), op_set("A", 1, 4)]), (0, [])):
                        for sh in shapes_for(lg):
                            yield case(mn, pre + stmt_ops(form, lg, sv, tag, shape_items(sh))), "stmt-shapes"


# tags the tag-filter grid uses: none, the text the filters compare with, empty, a proper prefix and an extension of it, an
# unrelated one, one that equals it only up to a NUL (string_ref is a C string: the record's tag IS "tg")
FILTER_TAGS = [None, "tg", "", "t", "tgx", "noisy", "tg\x00x"]


def tag_filter_cases():
    """tag-reading filters and towers of not_filter: every (minimum, light logger, relevant threshold setting, severity, tag of
    FILTER_TAGS) in the one-expression and the slot form, the local / moved / declaration forms in rotation, callables in every
    statement (a statement the filter rejects FOR ITS TAG must call nothing and deliver nothing; one it accepts for its tag must
    deliver once)"""
    n = 0
    for mn in range(6):
        for lg in LIGHT_LOGGERS:
            shs = [x for x in shapes_for(lg) if "o" in x or "l" in x]
            for pre in threshold_settings(lg):
                for sv in range(6):
                    for tag in FILTER_TAGS:
                        for form in "on":
                            n += 1
                            yield case(mn, pre + stmt_ops(form, lg, sv, tag, shape_items(shs[n % len(shs)]))), "tag-filter-grid"
                        its = shape_items(shs[(n * 3) % len(shs)])
                        r = n % 4
                        if r == 0:
                            yield case(mn, pre + [op_local(lg, sv, tag, its, "nucd"[(n // 4) % 4])]), "tag-filter-grid"
                        elif r == 1:
                            yield case(mn, pre + [op_moved(lg, sv, tag, its)]), "tag-filter-grid"
                        elif r == 2:
                            yield case(mn, pre + [op_bound(3, lg, sv, tag, [("C", 9, "g", "o")] + its)]), "tag-filter-grid"
                        else:
                            # two named streams with different tags open at once, an untagged statement in between
                            other = FILTER_TAGS[(n // 4) % len(FILTER_TAGS)]
                            yield case(mn, pre + [op_open(0, lg, sv, tag), op_open(1, lg, sv, other), op_put(0, ("C", 1, "p", "o")),
                                                  op_one(lg, sv, None, [("C", 2, "q", "l")]), op_put(1, ("C", 3, "r", "k")), op_close(0), op_close(1)]), "tag-filter-grid"


def kind_cases():
    for mn in range(6):
        for lg in range(len(LOGGERS)):
            yield case(mn, [op_kind(lg, sv) for sv in range(6)]), "kind"


def rand_item(rng, nid):
    k = rng.choice("SSSNNCCCCCXV")
    if k == "X":
        return ("X", rng.choice(FAILKINDS))
    if k == "V":
        return ("V", rng.choice(OBJKINDS), "".join(rng.choice("ab <>") for _ in range(rng.choice([0, 1, 4]))))
    if k == "S":
        n = rng.choice([0, 1, 1, 2, 5, 5, 17, 40, 300])       # beyond the small-string buffer (15/16) and beyond 255
        return ("S", "".join(rng.choice("ab |:\x00\n\xff%{}$\\") for _ in range(n)))
    if k == "N":
        return ("N", rng.choice([0, 1, -1, 42, -7, 10, 99, 100, 2 ** 31, -2 ** 31, 2 ** 63 - 1, -2 ** 63, rng.randint(-10 ** 6, 10 ** 6)]))
    return ("C", rng.randint(0, nid), "".join(rng.choice("xyz ") for _ in range(rng.choice([0, 1, 3]))), rng.choice(CKINDS))


def fit(lg, its):
    """a one-expression statement must use a shape instantiated for its logger"""
    if has_shape(lg, "".join(item_letter(i) for i in its)):
        return its
    plain = [i[:3] + ("o",) if i[0] == "C" else ("X", "x") if i[0] == "X" else ("S", i[2]) if i[0] == "V" else i for i in its]
    if has_shape(lg, "".join(item_letter(i) for i in plain)):
        return plain
    plain = [i for i in plain if i[0] != "X"]
    return plain if has_shape(lg, "".join(item_letter(i) for i in plain)) else plain[:2]


def rand_tag(rng):
    r = rng.random()
    if r < 0.4:
        return None
    if r < 0.5:
        return ""
    if r < 0.55:
        return "a\x00b"           # string_ref is a C string
    if r < 0.75:
        return rng.choice(["tg", "tg", "t", "tgx", "tg\x00"])      # the text the tag filters compare with, and near misses
    return "".join(rng.choice("tgTG:| \xe4") for _ in range(rng.randint(1, 4)))


def rand_program(rng, mn=None):
    """a random program: threshold changes, statements in both forms, named streams with overlapping lifetimes,
    occasionally ill-formed slot use (put/close on an empty slot, open on an occupied one, streams left open)"""
    mn = rng.randrange(6) if mn is None else mn
    ops = []
    openv = set()
    for _ in range(rng.randint(1, 12)):
        r = rng.random()
        lg = rng.randrange(len(LOGGERS)) if rng.random() < 0.6 else rng.choice(LIGHT_LOGGERS)
        sv = rng.randrange(6) if rng.random() < 0.6 else min(5, max(0, mn + rng.choice([-1, 0, 0, 1])))
        if r < 0.2:
            ops.append(op_set(rng.choice(RECS), rng.randrange(2), rng.randrange(6)))
            if rng.random() < 0.3:
                ops.append(op_get(rng.choice(RECS), rng.randrange(2)))
        elif r < 0.45:
            its = [rand_item(rng, 9) for _ in range(rng.randint(0, 3))]
            ctx = rng.choice("nnnuucd")
            q = rng.random()
            if q < 0.6:
                ops.append(op_one(lg, sv, rand_tag(rng), fit(lg, its), ctx))
            elif q < 0.85:
                ops.append(op_local(lg, sv, rand_tag(rng), its, ctx))
            elif q < 0.9:
                ops.append(op_moved(lg, sv, rand_tag(rng), its))
            elif q < 0.95:
                d = rng.choice([1, 2, 3, 3])
                first = [rng.choice([("S", "f"), ("N", -3), ("C", 9, "g", "o")])] if d != 2 else []
                ops.append(op_bound(d, lg, sv, rand_tag(rng), first + its))
            else:
                ops.append(op_direct(lg, sv, "".join(rng.choice("ab \x00") for _ in range(rng.choice([0, 2, 20])))))
        elif r < 0.6:
            v = rng.randrange(NSLOTS)
            ops.append(op_open(v, lg, sv, rand_tag(rng)))
            openv.add(v)
        elif r < 0.85:
            v = rng.choice(sorted(openv)) if openv and rng.random() < 0.9 else rng.randrange(NSLOTS)
            ops.append(op_put(v, rand_item(rng, 9)))
        elif r < 0.97:
            v = rng.choice(sorted(openv)) if openv and rng.random() < 0.9 else rng.randrange(NSLOTS)
            ops.append(op_close(v))
            openv.discard(v)
        else:
            ops.append(op_kind(lg, sv))
    return case(mn, ops)


def rand_statement_sequence(rng):
    """whole statements in both forms with threshold changes between them (the shape of C05_statement_sequence)"""
    mn = rng.randrange(6)
    ops = []
    for _ in range(rng.randint(2, 6)):
        if rng.random() < 0.3:
            ops.append(op_set(rng.choice(RECS), rng.randrange(2), rng.randrange(6)))
        lg = rng.randrange(len(LOGGERS))
        form = rng.choice("on")
        its = [rand_item(rng, 9) for _ in range(rng.randint(0, 3))]
        if form == "o":
            its = fit(lg, its)
        ops += stmt_ops(form, lg, rng.randrange(6), rand_tag(rng), its)
    return case(mn, ops)


def mid_threshold_cases():
    """the filter is consulted at construction only: thresholds change while a named stream is open"""
    for mn in (0, 2):
        for lg in (1, 3, 5, 8):
            for sv in range(6):
                for t_before in (0, sv, min(5, sv + 1)):
                    for t_after in (0, 5):
                        k = CKINDS[(lg + sv + t_before + t_after) % len(CKINDS)]
                        ops = [op_set("A", 0, t_before), op_open(1, lg, sv, "g"), op_put(1, ("C", 1, "p", k)), op_set("A", 0, t_after), op_set("A", 1, t_after),
                               op_one(lg, sv, None, [("C", 2, "q", k)]), op_put(1, ("S", "r")), op_close(1)]
                        yield case(mn, ops), "mid-threshold"


def cross_record_cases():
    """thresholds are per (record type, index): two logger types with the same filter indices over different record types.
    The threshold of one is set after the other was configured or left at its default; statements on each with a severity
    between the two thresholds; the getter of one read after setting the other; named streams open across the change"""
    for mn in (0, 2, 4):
        for la, lb in ((1, 10), (5, 11), (3, 10)):
            ra, rb = rec_of(la), rec_of(lb)
            for ta in range(6):
                for tb in range(6):
                    for order in range(3):
                        sets = {0: [op_set(rb, 0, tb), op_set(ra, 0, ta)],      # B configured, then A
                                1: [op_set(ra, 0, ta), op_set(rb, 0, tb)],      # A configured, then B
                                2: [op_set(ra, 0, ta)]}[order]                  # B left at its default
                        pre = [op_set(ra, 1, 5), op_set(rb, 1, 5)] if "T1" in LOGGERS[la][0] + LOGGERS[lb][0] else []
                        lo, hi = min(ta, tb), max(ta, tb)
                        for sv in sorted(set([lo, (lo + hi) // 2, hi, max(0, lo - 1)])):
                            ops = pre + sets + [op_get(rb, 0), op_get(ra, 0),
                                                op_one(lb, sv, "t", [("S", "b")]), op_one(la, sv, "t", [("S", "a")]),
                                                op_open(0, lb, sv, None), op_set(ra, 0, (ta + 3) % 6), op_get(rb, 0),
                                                op_put(0, ("C", 1, "x", "f")), op_one(lb, sv, None, [("C", 2, "y", "l")]), op_close(0)]
                            yield case(mn, ops), "cross-record"


def parse_case(line):
    """(minimum, [op words])"""
    w = line.split()
    return int(w[0][1:]), w[1:]


class LogCheck(Check):
    """common part of the two plug-ins"""
    vfiles = []
    ocaml = OCAML
    cpp = None
    design_ref = "DESIGN.md section 6, 'C05, C10 — the log statement (sequential semantics)'"
    technique = ("Coq proof over an executable model of nitro::log's stream objects (smart_stream ownership/moves, null_stream, "
                 "filter combinators, sequence sink) refining a spec of logical streams + translator-generated severity table "
                 "with Tie obligations + extraction-based differential test against a generated C++ program compiled once per "
                 "compile-time minimum from /repo's working tree")

    def __init__(self):
        self.cpps = cpps()

    def route(self, case):
        return case.split(" ", 1)[0]

    def base_cases(self, tier, rng):
        yield from kind_cases()
        yield from mid_threshold_cases()
        yield from cross_record_cases()
        yield from tag_filter_cases()
        if tier == "quick":
            yield from quick_deterministic()
            # every 97th statement of the complete single-statement space (97 is coprime to the inner loop sizes; the grids above
            # already put every item kind at every cell)
            for c in single_statement_space(stride=97):
                yield c, "stmt-stride97"
            nprog, nseq = 6000, 3000
        else:
            for c in single_statement_space():
                yield c, "stmt-exhaustive"
            # every third statement of the same space once more, executed in another context (rotating u, c, d; u twice as often)
            for c in single_statement_space(ctxs="uucd", stride=3):
                yield c, "stmt-context"
            nprog, nseq = 400000, 200000
        for _ in range(nprog):
            yield rand_program(rng), "program-rand"
        for _ in range(nseq):
            yield rand_statement_sequence(rng), "sequence-rand"

    def cases(self, tier, rng):
        return self.base_cases(tier, rng)

    def nontrivial(self, case, mobs, iobs):
        # a case is non-trivial when something was delivered or a callable was streamed
        return iobs != "-" or ":C" in case or ",C" in case

    def signature(self, case, mobs, iobs):
        mn, ops = parse_case(case)
        kinds = "".join(sorted(set(o[0] for o in ops)))
        ev = iobs.split()[1:]
        return (mn, kinds, min(len(ops), 6), min(sum(e[0] == "C" for e in ev), 3), min(sum(e[0] == "F" for e in ev), 3))

    def shrink(self, case):
        w = case.split()
        # drop one operation
        for i in range(1, len(w)):
            yield " ".join(w[:i] + w[i + 1:])
        # drop one item of a one-expression statement / shorten a hex field
        for i in range(1, len(w)):
            if w[i].startswith("O:"):
                f = w[i].split(":")
                its = f[4].split(",") if f[4] != "." else []
                for j in range(len(its)):
                    rest = its[:j] + its[j + 1:]
                    yield " ".join(w[:i] + [":".join(f[:4] + [",".join(rest) or "."])] + w[i + 1:])
                if f[3] != "~":
                    yield " ".join(w[:i] + [":".join(f[:3] + ["~", f[4]])] + w[i + 1:])

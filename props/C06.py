# props/C06.py — fixed_vector stays inside its storage and never exposes unfilled slots
import itertools
from props.vec_common import ctor_fault_cases, forms_cases, large_cases, ctor_cases, before_begin_cases, alias_cases, VecCheck, alphabet, exhaustive, fault_cases, random_case, malformed_cases, small_alphabet_cases


class C06(VecCheck):
    prop = "C06"
    vfiles = ["Properties/Properties_C06.v", "Extract/Extract_Vec.v"]
    corpus = "C06.txt"
    technique = ("Coq proof over an executable model of fixed_vector.hpp (slots Filled/Fresh/Moved, guarded storage access, fault plan "
                 "for throwing element assignments; invariants by induction over every operation and every history) + extraction-based "
                 "differential test against the C++ (operation-sequence interpreter over a pool of three objects, four element types, ASan/UBSan/LSan)")
    level_text = ("Proved in Coq for ALL capacities, arguments, pool sizes, finite operation histories and fault positions: every operation keeps "
                  "size <= capacity = array length and shows only caller-given elements (Inv) unless an element assignment throws inside the "
                  "shifting loop of positional emplace/erase, in which case the weaker WInv (no never-filled slot visible; one moved-from element "
                  "may be visible — witnesses proved) still holds; no operation ever reads or writes outside the array; capacity changes only by "
                  "constructing/assigning/destroying the whole object (list assignment sets it to the list length); append-when-full, "
                  "pop-when-empty, at/get/erase at index >= size, emplace/range-insert beyond size and ranges that do not fit raise; a refused "
                  "single-element operation and a throwing append/assignment leave the container unchanged. The model is tied to /repo by running "
                  "the extracted model and the real header on the same exhaustive + fault-enumerated + random operation sequences and diffing the "
                  "full observable state after every step; a spec-level oracle (bounded lists) judges differing observations.")
    level_note = ("NOT proved, only exercised by the driver: 'element objects are neither leaked nor destroyed twice' (instance-counting element "
                  "types with a live set and double-destroy trap, copyable / move-only / throwing on the k-th assignment, under ASan+LSan) and "
                  "real memory safety of the C++ (ASan/UBSan on the driven cases). Trusted: Coq kernel, ExtrOcamlBasic extraction, OCaml compiler, "
                  "the differential harness; assumed: std::unique_ptr<T[]>/make_unique, element types whose assignment either completes or "
                  "throws before changing anything. "
                  "The correspondence is bounded-exhaustive + sampled, not proved.")
    rule = ("operation sequences for the pool interpreter: (i) exhaustive sequences of depth 3 (quick) / 3 and 4 (thorough) over every mutating "
            "operation with every position 0..capacity and values {1,2,3} and the argument-less emplace_back()/emplace(pos) (a value-initialised element), capacities 0..3, copyable and move-only element types, full state printed "
            "after every step (so all prefixes are covered); (ii') erase / emplace / range insert at begin()-1 and begin()-2 (= end()-1, end()-2 on an empty vector) from every state two operations reach, capacities 0..3 (data() of a capacity-0 vector is a valid non-null pointer; moved-from objects are never used); (ii) fault enumeration: every element-assigning operation x every fault position "
            "0..capacity+1 x every fill level x a follow-up operation, copyable-throwing and move-only-throwing element types; (iii) random "
            "sequences of length 30 over three objects, capacities 0..5, values 1..9, ~3% malformed operations, 15% fault plans in the throwing "
            "variants; (iii') every public constructor with fitting and non-fitting arguments: fixed_vector(capacity, iterable) with iterables of length 0..capacity+3 from std::vector, std::list, std::array, std::initializer_list and another fixed_vector, into an empty slot and over an existing object, for the counting, the throwing (every fault position) and the PLAIN trivially copyable std::int64_t element type (variant P, which also runs the exhaustive stream to depth 2/3 and the random stream); range insert / push_back from a single-pass input iterator at every position; (iii'') argument forms (suffix ~f): emplace_back / emplace with rvalue, lvalue, temporary element, std::move of a named element, const element and several constructor arguments, insert / push_back with lvalue, const lvalue and temporary, std::swap, for the counting, move-only, plain, std::string (20-character values) and std::unique_ptr element types; capacities 66..260 filled completely; every state print also checks that each accessor (operator[], at, front, back, data, std::get, iterators, const and non-const) refers to the element in the container's own storage and walks the range by range-for, post-increment, iterator indexing and std algorithms; (iii''') the element constructor invoked with the emplace_back / emplace arguments throws (suffix !c) — for element types with NOEXCEPT moves (C, M) and with potentially throwing moves (T, U), every argument form, fill level and position, followed by a retry / reuse of the slot and the destruction of the container; (iv) malformed stream (also positions before begin() with offsets 0 and 5, refused by the drivers); (v) corpus of the pre-repair witnesses; (vi) aliasing arguments: emplace(begin()+pos, v[k]) for every k relative to pos, emplace_back/insert/push_back(v[k]), v = v, v = std::move(v) (iterator ranges into the vector itself are outside the contract and not compared), from every fill level with pairwise distinct values, alone, before/after an ordinary operation and in pairs. A case is non-trivial when some object holds at least one "
            "element at some step; distinct = distinct case line.")
    modelled_note = ("modelled, not verified: object lifetimes and std::unique_ptr<T[]> (all `capacity` elements live as long as the array), element "
                     "assignment = value transfer (move leaves a moved-from element), a throwing assignment throws before changing anything, "
                     "an argument may refer to a live element of the same vector (read when the code reads it); iterator ranges into the vector itself are outside the contract and not exercised; 'no leak / no double destruction' is exercised by the "
                     "driver's instance-counting element types under ASan+LSan only, not proved")

    def cases(self, tier, rng):
        caps = range(4)
        for c in malformed_cases():
            yield c, "malformed"
        for c in alias_cases("C", range(5), (0, 1, 2, 3) if tier == "quick" else range(5)):
            yield c, "alias-C"
        for c in alias_cases("T", range(4), (), faults=True):
            yield c, "alias-faults-T"
        for v in ("T", "U"):
            for c in fault_cases(v, caps, deep=True):
                yield c, "faults-" + v
        for v in ("C", "M"):
            for c in before_begin_cases(v, caps):
                yield c, "before-begin-" + v
        for v in ("C", "P"):
            for c in ctor_cases(v, caps):
                yield c, "ctor-sources-" + v
        for c in ctor_cases("T", caps, faults=True):
            yield c, "ctor-sources-faults-T"
        for c in exhaustive("P", caps, 2 if tier == "quick" else 3, True):
            yield c, "exh-P"
        for v in ("C", "M", "P", "S", "Q", "T"):
            for c in forms_cases(v, range(1, 4)):
                yield c, "forms-" + v
        for v in ("S", "Q"):
            for c in exhaustive(v, caps, 2 if tier == "quick" else 3, v == "Q" or tier == "thorough"):
                yield c, "exh-" + v
        for c in ctor_cases("S", caps):
            yield c, "ctor-sources-S"
        for v, cap in (("P", 70), ("C", 70), ("S", 66), ("Q", 66)) + ((("P", 260), ("C", 130)) if tier == "thorough" else ()):
            for c in large_cases(v, cap):
                yield c, "large"
        for v in (("C", "M", "T", "U") if "C06" in __name__ or tier == "thorough" else ("C", "M")):
            for c in ctor_fault_cases(v, range(1, 4)):
                yield c, "ctor-throws-" + v
        for c in exhaustive("C", caps, 3, True):
            yield c, "exh3-C"
        for c in exhaustive("M", caps, 3, True):
            yield c, "exh3-M"
        if tier == "thorough":
            for c in exhaustive("C", caps, 4, False):
                yield c, "exh4-C"
            for c in exhaustive("M", caps, 4, True):
                yield c, "exh4-M"
        R = 2500 if tier == "quick" else 40000
        for _ in range(R):
            yield random_case(rng, 30), "random"
        for _ in range(R // 2):
            yield random_case(rng, 30, variant=rng.choice("TU")), "random-faults"


CHECK = C06

# props/opt_common.py — shared by the parser-cluster checks (C01, C02, C03, C04, C11, C12, C14):
# declarations, environments, tokens built FROM the declaration in every relation the properties quantify over,
# renderings of intended assignments, exhaustive and random argument vectors.
import itertools
from lib.framework import Check


def hx(s):
    return s.encode("latin-1").hex() if s else "-"


def wl(l):
    return ",".join(hx(x) for x in l) if l else "."


def unhx(h):
    return "" if h == "-" else bytes.fromhex(h).decode("latin-1")


def unwl(w):
    return [] if w == "." else [unhx(x) for x in w.split(",")]


class Decl:
    def __init__(self, opts=(), multis=(), toggles=(), allowed=None, greedy=False):
        # opts: (name, short|None, env|None, default|None, optional)
        # multis: (name, short|None, env|None, default(list)|None, optional)
        # toggles: (name, short|None, env|None, default(int), rev)
        key = lambda t: t[0].encode("latin-1")
        self.opts = sorted(opts, key=key)
        self.multis = sorted(multis, key=key)
        self.toggles = sorted(toggles, key=key)
        self.allowed = allowed  # None = unlimited
        self.greedy = greedy

    def wire(self):
        o = lambda x: "~" if x is None else hx(x)
        os = "/".join("%s:%s:%s:%s:%d" % (hx(n), o(s), o(e), o(d), int(op)) for n, s, e, d, op in self.opts) or "."
        ms = "/".join("%s:%s:%s:%s:%d" % (hx(n), o(s), o(e), "~" if d is None else wl(d), int(op)) for n, s, e, d, op in self.multis) or "."
        ts = "/".join("%s:%s:%s:%d:%d" % (hx(n), o(s), o(e), d, int(r)) for n, s, e, d, r in self.toggles) or "."
        return "%s;%d;%s;%s;%s" % ("~" if self.allowed is None else str(self.allowed), int(self.greedy), os, ms, ts)

    def env_names(self):
        return [x[2] for x in self.opts + self.multis + self.toggles if x[2]]


def env_wire(pairs):
    return "/".join("%s=%s" % (hx(n), hx(v)) for n, v in pairs) or "."


def case(decl, env, argvs, kind="parse"):
    return "%s %s %s %s" % (kind, decl.wire(), env_wire(env), " ".join(wl(a) for a in argvs))


def parse_case(line):
    w = line.split(" ")
    return w[0], w[1], w[2], [unwl(x) for x in w[3:]]


VALUES = ["", "x", "-5", "a=b", "a b", "=", "\n", "\xc3\xa4", "--a=b", "-", "--", "7", "-v", "y"]

# ----------------------------------------------------------------------------- declaration shapes

def shapes():
    """a dozen declaration shapes covering: with/without short names, reversible or not, positional limits, greedy,
    names that themselves start with no-, env bindings and defaults"""
    O = ("out", "o", None, None, False)
    Oopt = ("out", "o", None, None, True)
    Odef = ("out", "o", None, "dflt", False)
    Olong = ("log", None, None, "l", False)
    M = ("inc", "i", None, None, True)
    Mreq = ("inc", "i", None, None, False)
    V = ("verbose", "v", None, 0, False)
    A = ("all", "a", None, 0, True)
    Q = ("quiet", None, None, 0, True)
    B = ("b", "b", None, 0, False)
    NC = ("no-color", "c", None, 0, False)
    XY = ("x-y", None, None, 1, True)
    r = []
    r.append(("basic-unl", Decl([Oopt], [M], [V, A, Q], None, False)))
    r.append(("basic-0", Decl([Oopt], [M], [V, A, Q], 0, False)))
    r.append(("basic-1", Decl([Oopt], [M], [V, A, Q], 1, False)))
    r.append(("basic-2", Decl([Oopt, Olong], [M], [V, A, B], 2, False)))
    r.append(("greedy-unl", Decl([Oopt], [M], [V, A, Q], None, True)))
    r.append(("greedy-2", Decl([Oopt], [M], [V, A], 2, True)))
    r.append(("required", Decl([O], [Mreq], [V], None, False)))
    r.append(("defaults", Decl([Odef, Olong], [("inc", "i", None, ["d1", "d2"], False)], [("all", "a", None, 3, True), XY], 1, False)))
    r.append(("no-names", Decl([Oopt], [], [NC, V, ("no", "n", None, 0, True)], None, False)))
    r.append(("toggles-only", Decl([], [], [V, A, B, Q, XY], 3, False)))
    r.append(("empty", Decl([], [], [], None, False)))
    r.append(("envs", Decl([("out", "o", "N_OUT", None, True)], [("inc", "i", "N_INC", None, True)],
                           [("verbose", "v", "N_V", 0, False), ("all", "a", "N_A", 1, True)], None, False)))
    return r


def tokens_for(d, rich=False):
    """tokens standing in every relation to the declaration"""
    t = []
    vals = ["x", "", "-5", "a=b"] + (["--a=b", "=", "a b", "\n"] if rich else [])
    for n, s, *_ in d.opts + d.multis:
        t += ["--" + n, "--" + n + "=", "--" + n + "=x"]
        if rich:
            t += ["--" + n + "=" + v for v in vals[2:]] + ["--" + n + "x", "--no-" + n]
        if s:
            t += ["-" + s, "-" + s + "=x"]
            if rich:
                t += ["-" + s + "=", "-" + s + "=-5", "-" + s + s, "-" + s + "x"]
    letters = [s for _, s, *_ in d.toggles if s]
    optletters = [s for _, s, *_ in d.opts + d.multis if s]
    for n, s, e, df, rev in d.toggles:
        t += ["--" + n, "--no-" + n]
        if rich:
            t += ["--" + n + "=x", "--no-" + n + "=1"]
        if s:
            t += ["-" + s, "-" + s + s]
    for a, b in itertools.permutations(letters[:3], 2):
        t.append("-" + a + b)
    if letters:
        l0 = letters[0]
        t += ["-" + l0 + "z", "-z" + l0]                       # undeclared letter at each end
        for ol in optletters[:2]:
            t += ["-" + l0 + ol, "-" + ol + l0]                # option letter hidden in a bundle
            t += ["-" + l0 + ol + "=x", "-" + ol + l0 + "="]   # ... carrying an inline value
        if rich and len(letters) >= 2:
            t += ["-" + l0 + letters[1] + l0, "-" + l0 + "=" + "x", "-" + l0 + letters[1] + "=x", "-" + l0 + "-" + letters[1]]
    t += ["x", "y", "", "--", "-", "--unknown", "-z", "---x", "-=", "--=x", "-5", "{}", "--{}"]
    allletters = letters + optletters
    if any(c in "0123456789.e" for c in allletters):
        t += ["-" + "".join(p) for p in itertools.permutations([c for c in allletters if c in "0123456789.ex"][:3], 2)]
        t += ["-1e5", "-0x5", "-.5", "-15"]
    if all(c in allletters for c in "na"):
        t += ["-nan", "-na", "-an"]
    if all(c in allletters for c in "inf"):
        t += ["-inf", "-fin", "-nif"]
    if letters:
        t += ["-" + letters[0] + "{}"]
    if optletters:
        t += ["-" + optletters[0] + "{}"]
    if rich:
        t += ["=", "=x", "a=b", "----", "-=-", "--=", "--no-", "--no-zzz", " ", "\n"]
        # bytes that mean something to formatting layers through which an error text may pass
        t += ["-{}", "--x={}", "{0}", "%s", "%n", "{", "}", "--{", "\\", "$(x)"]
        # near misses of declared names and letters: other case, proper prefix, extended, non-ASCII neighbour
        for n, s_, *_ in (d.opts + d.multis + d.toggles)[:4]:
            t += ["--" + n.upper(), "--" + n + "-", "--" + n + "\xe4"]
            if len(n) > 1:
                t += ["--" + n[:-1]]
            if s_:
                t += ["-" + s_.upper(), "-" + s_ + "\xe4"]
    seen, out = set(), []
    for x in t:
        if x not in seen:
            seen.add(x)
            out.append(x)
    return out


def exhaustive_argvs(tokens, maxlen):
    for n in range(maxlen + 1):
        for tup in itertools.product(tokens, repeat=n):
            yield list(tup)


# ----------------------------------------------------------------------------- renderings of intended assignments

def is_value_tok(s):
    name = s.split("=", 1)[0]
    return not name.startswith("-")


def render_assignment(d, rng, allow_tail=True):
    """draw an intended assignment and spell it: returns argv (list of tokens).  Mirrors Opt/ParserSpec.render."""
    items = []
    for n, s, *_ in d.opts:
        if rng.random() < 0.6:
            items.append([spell_valued(n, s, rng.choice(VALUES), rng)])
    for n, s, *_ in d.multis:
        for _ in range(rng.choice([0, 0, 1, 2, 3])):
            items.append([spell_valued(n, s, rng.choice(VALUES), rng)])
    bundle_pool = []
    for n, s, e, df, rev in d.toggles:
        k = rng.choice([0, 0, 1, 1, 2, 3])
        if k == 0 and rev and rng.random() < 0.4:
            for _ in range(rng.choice([1, 1, 2])):
                items.append([["--no-" + n]])
            continue
        for _ in range(k):
            if s and rng.random() < 0.6:
                bundle_pool.append(s)
            else:
                items.append([["--" + n]])
    rng.shuffle(bundle_pool)
    while bundle_pool:
        k = rng.randint(1, min(3, len(bundle_pool)))
        items.append([["-" + "".join(bundle_pool[:k])]])
        bundle_pool = bundle_pool[k:]
    npos_allowed = 10 if d.allowed is None else d.allowed
    inline, tail = [], None
    npos = rng.randint(0, min(3, npos_allowed))
    use_tail = allow_tail and rng.random() < 0.4
    for _ in range(npos):
        v = rng.choice(VALUES + ["--out", "-v", "--", "-", "---x", "-=x"])
        if use_tail and (not is_value_tok(v) or rng.random() < 0.5):
            tail = (tail or []) + [v]
        elif is_value_tok(v):
            inline.append(v)
    if use_tail and tail is None:
        tail = []
    rng.shuffle(items)
    argv = []
    if d.greedy and inline:
        # in greedy mode nothing but positionals may follow the first one, and then "--" would be a positional too
        for it in items:
            argv += it[0]
        argv += inline
        if tail:
            argv += tail  # after the first positional everything is positional anyway
        return argv
    # interleave the inline positionals with the items
    slots = items + [[[p]] for p in inline]
    rng.shuffle(slots)
    # a positional must not directly follow a blank-separated option form: that is fine, it would be consumed... keep order,
    # the spelled forms already carry their own values
    for it in slots:
        argv += it[0]
    if tail is not None:
        argv += ["--"] + tail
    return argv


def spell_valued(name, short, v, rng):
    forms = ["leq"]
    if is_value_tok(v):
        forms.append("lsp")
    if short:
        forms.append("seq")
        if is_value_tok(v):
            forms.append("ssp")
    f = rng.choice(forms)
    if f == "leq":
        return ["--" + name + "=" + v]
    if f == "lsp":
        return ["--" + name, v]
    if f == "seq":
        return ["-" + short + "=" + v]
    return ["-" + short, v]


def random_decl(rng, small=True):
    names = ["a", "b", "ab", "out", "no-a", "x-y", "verbose", "n"]
    if rng.random() < 0.1:
        names = ["c--no-s", "no-", "a--no-", "out", "x--no-x", "n"]      # the reversal prefix again INSIDE a name
    letters = ["a", "b", "o", "v", "n", "x"]
    r0 = rng.random()
    if rng.random() < 0.15:
        # names and letters with bytes >= 0x80 (signed char comparisons, UTF-8 in names); one-byte letters only
        names = ["gr\xf6\xdfe", "\xe9t\xe9", "a", "out", "\xfcber", "x-y", "verbose", "n\xe4"]
        letters = ["\xfc", "\xe4", "o", "v", "\xdf", "x"]
    if r0 < 0.12:
        letters = ["1", "0", "5", "e", "x", "."]          # digit short names: tokens such as -1, -15, -1e5, -0x5 are bundles, not numbers
    elif r0 < 0.2:
        letters = ["n", "a", "i", "f", "t", "y"]          # bundles that spell -nan, -inf, -infinity
    rng.shuffle(names)
    rng.shuffle(letters)
    k_o, k_m, k_t = rng.randint(0, 2), rng.randint(0, 2), rng.randint(0, 3)
    used = names[:k_o + k_m + k_t]
    # K1 (known finding): avoid `foo` together with `no-foo` unless asked for
    if "a" in used and "no-a" in used:
        used.remove("no-a")
    it = iter(used)
    li = iter(letters)
    def sh():
        return next(li, None) if rng.random() < 0.7 else None
    envn = iter(["N_E1", "N_E2", "N_E3", "N_E4", "N_E5", "N_E6", "N_E7"])
    def ev():
        return next(envn) if rng.random() < 0.3 else None
    opts, multis, toggles = [], [], []
    for _ in range(k_o):
        n = next(it, None)
        if n is None:
            break
        opts.append((n, sh(), ev(), rng.choice([None, None, "d", ""]), rng.random() < 0.6))
    for _ in range(k_m):
        n = next(it, None)
        if n is None:
            break
        multis.append((n, sh(), ev(), rng.choice([None, None, [], ["d1", "d2"]]), rng.random() < 0.6))
    for _ in range(k_t):
        n = next(it, None)
        if n is None:
            break
        toggles.append((n, sh(), ev(), rng.choice([0, 0, 1, 2, -1]), rng.random() < 0.5))
    return Decl(opts, multis, toggles, rng.choice([None, None, 0, 1, 2, 3, 3, BIG_LIMITS[rng.randrange(len(BIG_LIMITS))]]), rng.random() < 0.25)


# finite limits far beyond any vector: 2^32 and neighbours (a narrowing to 32 bits leaves 0, 1, 0), 2^31, 2^63
BIG_LIMITS = [2**32, 2**32 + 1, 2**40, 2**31, 2**63, 2**32 - 1]


def grow_decl(d, rng):
    """a superset declaration: one or two more options/toggles with unused names and letters (K1 avoided)"""
    used_names = set(x[0] for x in d.opts + d.multis + d.toggles)
    used_letters = set(x[1] for x in d.opts + d.multis + d.toggles if x[1])
    names = [n for n in ["c", "d", "cd", "extra", "more", "z-z", "k"] if n not in used_names and ("no-" + n) not in used_names]
    letters = [c for c in "cdekmz" if c not in used_letters]
    rng.shuffle(names)
    rng.shuffle(letters)
    opts, multis, toggles = list(d.opts), list(d.multis), list(d.toggles)
    for _ in range(rng.randint(1, 2)):
        if not names:
            break
        n = names.pop()
        sh = letters.pop() if letters and rng.random() < 0.7 else None
        k = rng.random()
        if k < 0.35:
            opts.append((n, sh, None, rng.choice([None, "d"]), True))
        elif k < 0.6:
            multis.append((n, sh, None, None, True))
        else:
            toggles.append((n, sh, None, rng.choice([0, 1]), rng.random() < 0.5))
    return Decl(opts, multis, toggles, d.allowed, d.greedy)


def retouch_decl(d, rng):
    """the same entries with one to three attributes changed the way a program changes them through the references it kept:
    a short name added, an environment variable bound, a default set or replaced, optional(), allow_reverse(),
    another toggle default"""
    used_letters = set(x[1] for x in d.opts + d.multis + d.toggles if x[1])
    free = [c for c in "ghjrwy" if c not in used_letters]
    rng.shuffle(free)
    opts, multis, toggles = [list(x) for x in d.opts], [list(x) for x in d.multis], [list(x) for x in d.toggles]
    allent = [("o", x) for x in opts] + [("m", x) for x in multis] + [("t", x) for x in toggles]
    if not allent:
        return Decl([], [], [], rng.choice([None, 0, 1, 2, 3]), d.greedy)
    for _ in range(rng.randint(1, 3)):
        kind, x = rng.choice(allent)
        r = rng.random()
        if r < 0.2 and x[1] is None and free:
            x[1] = free.pop()
        elif r < 0.45 and x[2] is None:       # an environment binding cannot be changed once made (parser_error)
            x[2] = rng.choice(["N_H1", "N_H2", "N_" + x[0].upper().replace("-", "_")])
        elif r < 0.8:
            if kind == "o":
                x[3] = rng.choice(["d", "dd", "", "-5"])
            elif kind == "m":
                x[3] = rng.choice([["d1"], ["d1", "d2"], []])
            else:
                x[3] = rng.choice([0, 1, 2])
        else:
            x[4] = True
    allowed, greedy = d.allowed, d.greedy
    if rng.random() < 0.35:
        # the positional set-up called again: another limit (larger, smaller, none, zero), greedy switched on or off
        allowed = rng.choice([None, 0, 1, 2, 3])
        if rng.random() < 0.3:
            greedy = not greedy
    return Decl([tuple(x) for x in opts], [tuple(x) for x in multis], [tuple(x) for x in toggles], allowed, greedy)


ENV_WORDS = ["", "x", "1", "0", "true", "FALSE", "on", "Off", "maybe", "-5", "--a=b", "a;b", ";", "a;;b;", "yes", "No", "TRUE ", "tRUE"]


def random_env(d, rng):
    pairs = []
    for n in d.env_names():
        if rng.random() < 0.6:
            pairs.append((n, rng.choice(ENV_WORDS)))
    return pairs


def reuse_stream(tier, rng, n):
    """one long-lived parser object: several calls, environment changes, further declarations, the object moved
    (construction and assignment from a differently declared parser of similar size) — each call is compared with a
    freshly built identical parser inside the C++ process and judged by the spec of the current declaration"""
    for _ in range(n):
        d0 = random_decl(rng)
        steps = []
        cur = d0
        old_toks = []
        for _ in range(rng.randint(2, 6)):
            k = rng.random()
            if k < 0.5:
                toks = tokens_for(cur, rich=False) + old_toks
                r = rng.random()
                if r < 0.45:
                    argv = render_assignment(cur, rng)
                elif r < 0.9:
                    argv = [rng.choice(toks) for _ in range(rng.randint(0, 4))]
                else:
                    argv = [rng.choice(["p", "q", "x"]) for _ in range(rng.randint(1, 3))]
                steps.append("a:" + wl(argv))
            elif k < 0.65:
                steps.append("e:" + env_wire(random_env(cur, rng)))
            elif k < 0.74:
                cur = grow_decl(cur, rng)
                steps.append("d:" + cur.wire())
            elif k < 0.80:
                cur = retouch_decl(cur, rng)
                steps.append("u:" + cur.wire())
            elif k < 0.86:
                steps.append("mc")
            else:
                # tokens that were meaningful for the parser this object used to be (its letters, names, bundles)
                old_toks = [t for t in tokens_for(cur, rich=False) if t.startswith("-")][:12]
                nd = random_decl(rng)
                tries = 0
                while tries < 8 and len(nd.opts + nd.multis + nd.toggles) != len(cur.opts + cur.multis + cur.toggles):
                    nd = random_decl(rng)
                    tries += 1
                cur = nd
                steps.append("M:" + cur.wire())
        if not any(s.startswith("a:") for s in steps) or not steps[-1].startswith("a:"):
            toks = tokens_for(cur, rich=False) + old_toks
            steps.append("a:" + wl([rng.choice(toks) for _ in range(rng.randint(1, 3))]))
        yield "steps %s %s %s" % (d0.wire(), env_wire(random_env(d0, rng)), " ".join(steps)), "reuse-steps"


def moved_bundle_stream(tier, rng, n):
    """a parser object that parsed, was then move-assigned from (or grown into) a parser of the same size whose toggle letters
    partly differ, and is given bundles mixing letters of the old and of the new declaration"""
    letters = list("abcdefgh")
    for _ in range(n):
        rng.shuffle(letters)
        k = rng.randint(2, 3)
        old = letters[:k]
        new = [rng.choice(old)] + letters[k:k + k - 1]
        mk = lambda ls: Decl([("out", "o", None, None, True)], [], [("t" + c, c, None, 0, rng.random() < 0.3) for c in ls],
                             rng.choice([None, 1]), False)
        d_old, d_new = mk(old), mk(new)
        steps = ["a:" + wl(["-" + "".join(rng.sample(old, rng.randint(1, len(old))))])]
        steps.append(rng.choice(["M:", "M:", "mc M:"]).replace("M:", "M:" + d_new.wire()))
        pool = old + new + ["z"]
        for _ in range(rng.randint(1, 3)):
            b = "".join(rng.choice(pool) for _ in range(rng.randint(1, 3)))
            steps.append("a:" + wl(["-" + b] + (["p"] if rng.random() < 0.3 else [])))
        yield "steps %s . %s" % (d_old.wire(), " ".join(steps)), "reuse-moved-bundle"


def dup_short_stream(tier, rng, n):
    """declarations in which two entries share a short name (parse must refuse every time, also the k-th time on the same
    object, after a move, and after further declarations that keep or remove nothing)"""
    kinds = ["o", "m", "t"]
    for _ in range(n):
        a, b = rng.choice(kinds), rng.choice(kinds)
        letter = rng.choice("xvq")
        names = rng.sample(["alpha", "beta", "gamma", "x-y", "n"], 3)
        opts, multis, togs = [], [], []
        def put(kind, name, sh):
            if kind == "o":
                opts.append((name, sh, None, rng.choice([None, "d"]), True))
            elif kind == "m":
                multis.append((name, sh, None, None, True))
            else:
                togs.append((name, sh, None, 0, rng.random() < 0.5))
        put(a, names[0], letter)
        put(b, names[1], letter)
        put(rng.choice(kinds), names[2], rng.choice([None, "k"]))
        d = Decl(opts, multis, togs, rng.choice([None, 0, 2]), False)
        d0 = d
        steps = []
        for _ in range(rng.randint(2, 4)):
            r = rng.random()
            if r < 0.7:
                steps.append("a:" + wl([rng.choice(["-" + letter, "--" + names[0], "--" + names[1] + "=v", "p", "-k", "--"]) for _ in range(rng.randint(0, 3))]))
            elif r < 0.85:
                steps.append("mc")
            else:
                d = grow_decl(d, rng)
                steps.append("d:" + d.wire())
        steps.append("a:" + wl([rng.choice(["-" + letter, "p"])]))
        yield "steps %s . %s" % (d0.wire(), " ".join(steps)), "dup-short-steps"


def fail_then_parse_stream(tier, rng):
    """directed histories: a call that FAILS at a chosen point (option given twice with a detached / an attached value, missing
    value, unknown option, unknown letter in a bundle, too many positionals, reversal not allowed, both polarities), then a
    second call whose FIRST tokens are of every kind — nothing of the failed call may be left armed in the object"""
    d = Decl([("out", "o", None, None, True), ("lvl", "l", None, "d", True)], [("inc", "i", None, None, True)],
             [("verbose", "v", None, 0, False), ("all", "a", None, 0, True)], 1, False)
    failing = [["--out", "a", "--out", "b"], ["-o", "a", "-o", "b"], ["--out=a", "--out=b"], ["--out", "a", "-o=b"],
               ["--out"], ["-o"], ["--inc"], ["--bogus"], ["-vz"], ["-vo", "x"], ["p", "q"], ["--no-verbose"],
               ["--all", "--no-all"], ["--no-all", "-a"], ["--out", "a", "p", "q"], ["-v", "--out", "a", "--out", "b", "p"],
               ["--lvl", "1", "--lvl", "2"], ["--", "p", "q"], ["p", "--out", "a", "--out", "b"]]
    seconds = [[], ["-v"], ["--bogus"], ["-vz"], ["p"], ["p", "q"], ["--out", "x"], ["-v", "-v"], ["--out", "x", "-v"],
               ["--inc", "1", "--inc", "2"], ["--no-all"], ["--all"], ["--"], ["-a", "p"], ["--lvl=7"], ["-o=y", "p"]]
    for f in failing:
        for s2 in seconds:
            yield "steps %s . a:%s a:%s" % (d.wire(), wl(f), wl(s2)), "fail-then-parse"
            if tier == "thorough" or rng.random() < 0.25:
                yield "steps %s . a:%s mc a:%s" % (d.wire(), wl(f), wl(s2)), "fail-then-parse"
                yield "steps %s . a:%s a:%s a:%s" % (d.wire(), wl(s2), wl(f), wl(s2)), "fail-then-parse"
                yield "hist %s . %s %s" % (d.wire(), wl(f), wl(s2)), "fail-then-parse"


def core_stream(tier, rng, n_random):
    """the stream every parser-cluster check runs: exhaustive short vectors over declaration-relative tokens for
    every shape + random longer vectors + random declarations"""
    yield from reuse_stream(tier, rng, 1500 if tier == "quick" else 15000)
    yield from moved_bundle_stream(tier, rng, 400 if tier == "quick" else 4000)
    yield from dup_short_stream(tier, rng, 300 if tier == "quick" else 3000)
    yield from fail_then_parse_stream(tier, rng)
    sh = shapes()
    for name, d in sh:
        toks = tokens_for(d, rich=False)
        for argv in exhaustive_argvs(toks, 2 if tier == "quick" else 3):
            yield case(d, [], [argv]), "exh-" + name
    for _ in range(n_random):
        if rng.random() < 0.5:
            name, d = rng.choice(sh)
        else:
            name, d = "random-decl", random_decl(rng)
        toks = tokens_for(d, rich=True)
        if rng.random() < 0.5:
            argv = [rng.choice(toks) for _ in range(rng.randint(0, 6))]
            cat = "rand-tokens"
        else:
            argv = render_assignment(d, rng)
            cat = "rand-render"
        yield case(d, random_env(d, rng), [argv]), cat


class OptCheck(Check):
    cpp = dict(name="opt", driver_src="harness/opt_driver.cpp",
               repo_srcs=["src/options/parser.cpp", "src/options/group.cpp", "src/options/option.cpp",
                          "src/options/multi_option.cpp", "src/options/toggle.cpp", "src/env/get.cpp"])
    ocaml = dict(name="opt", extracted="opt_model.ml", glue=("glue_base.ml", "glue_z.ml", "glue_sub.ml"))
    oracle_args = ("oracle", "spec")
    oracle_all = True
    modelled_note = ("modelled, not verified: std::map ordering of options by name, std::multiset::count over the letters of a short token, "
                     "std::getline for ';'-separated environment values, getenv/setenv, object lifetime; argv strings and environment values "
                     "contain no NUL byte; int overflow of toggle counts is outside the model (Z)")

    def nontrivial(self, case, mobs, iobs):
        # at least one token and a non-default outcome: an error, or a success that reports something given
        w = case.split(" ")
        if w[0] == "ctor":
            return w[1] != "-"
        if all(x == "." for x in w[3:]):
            return False
        return True

    def signature(self, case, mobs, iobs):
        if case.startswith("ctor "):
            return ("ctor", iobs, min(len(case), 12))
        if case.startswith("steps "):
            return ("steps", tuple(x[0] for x in case.split(" ")[3:8]), tuple(p.split(" ")[0] for p in iobs.split(" | ")[:3]))
        parts = iobs.split(" | ")
        sig = []
        for p in parts[:3]:
            if p.startswith("OK"):
                f = dict(x.split("=", 1) for x in p.split(" ")[1:] if "=" in x)
                sig.append(("OK", f.get("p", ".") != ".", f.get("v", ".") != ".", min(f.get("p", "").count(","), 3)))
            else:
                sig.append((p,))
        w = case.split(" ")
        d = w[1].split(";")
        return (tuple(sig), d[0], d[1], min(len(w[3].split(",")), 5))

    def shrink(self, case):
        if case.startswith("ctor "):
            h = case.split(" ")[1]
            for j in range(0, len(h), 2):
                yield "ctor " + ((h[:j] + h[j + 2:]) or "-")
            return
        if case.startswith("steps "):
            w = case.split(" ")
            for i in range(3, len(w)):
                if len(w) > 4:
                    yield " ".join(w[:i] + w[i + 1:])
            return
        kind, dw, ew, argvs = parse_case(case)
        # drop a call, drop a token, shorten a token, drop env entries, drop declarations
        for i in range(len(argvs)):
            if len(argvs) > 1:
                yield " ".join([kind, dw, ew] + [wl(a) for j, a in enumerate(argvs) if j != i])
        for i, a in enumerate(argvs):
            for k in range(len(a)):
                b = a[:k] + a[k + 1:]
                yield " ".join([kind, dw, ew] + [wl(b if j == i else x) for j, x in enumerate(argvs)])
            for k, tok in enumerate(a):
                if len(tok) > 1:
                    for cut in (tok[:-1], tok[1:]):
                        b = a[:k] + [cut] + a[k + 1:]
                        yield " ".join([kind, dw, ew] + [wl(b if j == i else x) for j, x in enumerate(argvs)])
        if ew != ".":
            es = ew.split("/")
            for k in range(len(es)):
                yield " ".join([kind, dw, "/".join(es[:k] + es[k + 1:]) or "."] + [wl(a) for a in argvs])
        f = dw.split(";")
        for idx in (2, 3, 4):
            if f[idx] != ".":
                es = f[idx].split("/")
                for k in range(len(es)):
                    g = list(f)
                    g[idx] = "/".join(es[:k] + es[k + 1:]) or "."
                    yield " ".join([kind, ";".join(g), ew] + [wl(a) for a in argvs])

    def known_match(self, matcher, case, mobs, iobs):
        if matcher == "no_prefix_clash":
            if case.startswith(("steps ", "ctor ")):
                return False
            kind, dw, ew, argvs = parse_case(case)
            f = dw.split(";")
            names = []
            for idx in (2, 3, 4):
                if f[idx] != ".":
                    names += [unhx(e.split(":")[0]) for e in f[idx].split("/")]
            tog = [unhx(e.split(":")[0]) for e in f[4].split("/")] if f[4] != "." else []
            return any(("no-" + t) in names for t in tog)
        return False

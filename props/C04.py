# props/C04.py — bad user input always ends in the user-input error, under exact conditions
import itertools
from props.opt_common import *

class C04(OptCheck):
    prop = "C04"
    vfiles = ["Properties/Properties_C04.v", "Tie/Tie_C04.v"]
    corpus = "C04.txt"
    oracle_args = ("oracle", "C04")
    design_ref = "DESIGN.md section 6, C04"
    technique = "Coq proof over the executable parser model (no developer error, error iff documented condition) + malformed-input differential run under ASan/UBSan with a watchdog"
    level_text = 'Theorems: no developer error for consistent declarations, guarded accessors never fire (parse_g = parse_c), user-input error IFF documented_condition (lexical / semantic / limit / source conditions, each characterised), totality by construction. PARTIAL: crash/hang/out-of-bounds freedom is a machine fact, exercised by the malformed stream under ASan/UBSan with a watchdog'
    level_note = "trusted: Coq kernel; ExtrOcamlBasic extraction + OCaml; the differential harness (generators, C++ driver through the public API under ASan/UBSan, canonical observation lines); gen/tr_vocab.py for C11. Theorem hypotheses: wf_decl (names non-empty, no '=', not starting with '-', pairwise distinct; letters neither '-' nor '='), no_clash (known finding K1: no toggle foo next to anything called no-foo), aligned state (every reachable state is: C14_reachable_aligned). Modelled, not verified: std::map name order, std::multiset::count on letters, std::getline at ';', getenv, object lifetimes, int overflow of counts (model uses Z), operator>> for typed access (exercised with as<long> on decimal texts only). The tie model=code is bounded-exhaustive + sampled, not proved"
    rule = ("core stream (exhaustive short vectors over declaration-relative tokens for 12 declaration shapes; random vectors, random declarations and environments; 'steps' histories on ONE long-lived parser object — several calls, environment changes, further declarations, move construction, move assignment from a differently declared parser — each call also made on a freshly built identical parser; declarations spread over named groups in a hash-derived order) + malformed stream: every byte string of length <= 4 over {-,=,a,LF} as a single token and in "
            "each position of a 3-token vector, 100000-letter bundles, 1000 '='; non-trivial = at least one token; distinct = distinct case line")

    def cases(self, tier, rng):
        yield from core_stream(tier, rng, 6000 if tier == "quick" else 60000)
        sh = dict(shapes())
        alpha = "-=a\n"
        d = sh["basic-1"]
        dg = sh["greedy-2"]
        L = 3 if tier == "quick" else 4
        for n in range(1, L + 1):
            for t in itertools.product(alpha, repeat=n):
                tok = "".join(t)
                yield case(d, [], [[tok]]), "malformed-single"
                yield case(d, [], [["-v", tok, "x"]]), "malformed-mid"
                yield case(d, [], [["--", tok]]), "malformed-after-dd"
                yield case(d, [], [["--out", tok]]), "malformed-as-value"
                yield case(dg, [], [["x", tok]]), "malformed-greedy"
                yield "ctor %s" % hx(tok), "validating-ctor"
        # very long tokens
        for nlet in ([20000] if tier == "quick" else [20000, 100000]):
            yield case(d, [], [["-" + "v" * nlet]]), "long-bundle"
            yield case(d, [], [["-" + "v" * nlet + "z"]]), "long-bundle"
            yield case(d, [], [["--out=" + "=" * 1000 + "x" * nlet]]), "long-value"
            yield case(d, [], [["--" + "o" * nlet]]), "long-name"

CHECK = C04

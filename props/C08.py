# props/C08.py — nitro::format substitutes placeholders positionally, verbatim, with exact arity; exception messages
import itertools
from lib.framework import Check

def hx(s):
    return s.encode("latin-1").hex() if s else "-"
def unhx(h):
    return "" if h == "-" else bytes.fromhex(h).decode("latin-1")
def strings(alpha, maxlen):
    for n in range(maxlen + 1):
        for t in itertools.product(alpha, repeat=n):
            yield "".join(t)

# an argument is ("s", text) | (kind, value) with kind one of i d b f h x w t m (see ocaml/fmt_driver.ml); written kind+value;
# ("v", k + hex) is an argument that has an operator<< AND (optionally) a different conversion to a string type (k = t p k e v a o)
def warg(a):
    return "s" + hx(a[1]) if a[0] == "s" else "%s%s" % (a[0], a[1])
def A(word):
    return (word[0], word[1:])
def akind(word):
    """the kind of an argument word: its first letter, two letters for the v kinds"""
    return word[:2] if word[0] == "v" else word[0]
# kinds whose stream text and conversion text differ or whose type is not std::string: t implicit operator std::string(),
# p std::filesystem::path, k implicit operator const char*(), e explicit operator std::string(), v std::string_view,
# a char[16], o streamable only
DUALK = ["vt", "vp", "vk", "ve", "vv", "va", "vo"]
DUALTXT = ["x", "", "a b", "a\"b\\c", "{}", "/var/log/my app.log"[:15]]
def D(k, text):
    return k + hx(text)
# the kinds the driver passes to variadic calls in their real C++ types; the fillers of a three-argument call
REALK = ["s", "i"] + DUALK
def real_arg(k, text, num=7):
    return "i%d" % num if k == "i" else D(k, text)
def wargs(l):
    return ",".join(warg(a) for a in l) if l else "."
def S(x):
    return ("s", x)

def chain_pct(args):
    return ["p:" + warg(a) for a in args]
def chain_args(args):
    return ["a:" + wargs(args)]
def chain_mixed(args, rng):
    """a random mixture of % and args(...) calls (args() with no argument included) supplying `args` in order"""
    ops, i = [], 0
    while i < len(args) or not ops:
        r = rng.random()
        if rng.random() < 0.06:
            ops.append("q:.")        # ask for the text in between (may raise: too few so far), then go on
        if r < 0.4 and i < len(args):
            ops.append("p:" + warg(args[i])); i += 1
        elif r < 0.5:
            ops.append("a:.")
        else:
            n = rng.randint(1, min(4, len(args) - i)) if i < len(args) else 0
            ops.append("a:" + wargs(args[i:i + n])); i += n
    return ops
def rel_case(scn, f, oth, pre_ops, post_ops):
    return " ".join(["rel", scn, hx(f), hx(oth)] + pre_ops + ["/"] + post_ops)
def fmt_case(f, ops):
    return " ".join(["fmt", hx(f)] + ops)

VALS = ["", "x", "{}", "{", "}"]
VALS2 = VALS + ["a{", "}a", "{}{}", "}{"]
INTS = [0, 1, -1, 7, 10, -10, 42, 99, 100, 999999, -999999, 123456, 2147483647, -2147483648, 2**31, 2**53 + 1,
        4611686018427387903, -4611686018427387904, 9223372036854775807, -9223372036854775808]
DBLS = [0, 1, -1, 5, 10, -10, 100, 1000, 4096, 99999, 100000, 123456, 999999, -999999, -123450]

# arguments whose operator<< leaves formatting state on the stream they are written to (user types, manipulators) ...
STICKY = ["h255", "h0", "h4096", "x12", "x-3", "w7", "w-12345", "w1234567", "t1", "t0",
          "mhex", "mboolalpha", "mshowbase", "mshowpos", "muppercase", "mfixed", "mleft",
          "msetprecision2", "msetprecision0", "msetprecision12", "msetw8", "msetw0", "msetfill2a", "msetfill30"]
# ... and arguments whose text would change if such state were still around when they are rendered
SENSITIVE = ["i16", "i-255", "i0", "i9223372036854775807", "i-9223372036854775808", "d100000", "d-7", "d0",
             "b1", "b0", "f0", "f-1", "f1234", "f-99999", "s78", "s-", "s7b7d"]

def parse_case(case):
    """-> (kind, format text or None (joined formats for seq), list of (chunk kind, [args as wire words]))"""
    w = case.split()
    if w[0] == "loc":
        w = w[1:]
    if w[0] == "os":
        w = ["os"] + w[4:]
    if w[0] == "rel":
        w = ["rel", w[2]] + [x for x in w[4:] if x != "/"]
    if w[0] in ("lit", "excf"):
        kindname = w[0]
        w = ["fmt"] + w[1:]
    else:
        kindname = None
    if w[0] in ("fmt", "seq", "os", "rel"):
        ops, fs, newf = [], [], True
        for o in w[1:]:
            if o == "/":
                newf = True
            elif newf:
                fs.append(unhx(o)); newf = False
            else:
                body = o[2:]
                ops.append((o[0], [] if body == "." else body.split(",")))
        return kindname or w[0], (fs[0] if w[0] != "seq" else " ".join(fs)), ops
    return "exc", None, [("e", w[1:])]

class C08(Check):
    prop = "C08"
    vfiles = ["Properties/Properties_C08.v", "Extract/Extract_Fmt.v"]
    cpp = dict(name="fmt", driver_src="harness/fmt_driver.cpp", extra_srcs=["harness/fmt_dual_exc.cpp", "harness/fmt_dual_exc3.cpp", "harness/fmt_dual_args.cpp"])
    ocaml = dict(name="fmt", extracted="fmt_model.ml", glue=("glue_base.ml", "glue_z.ml"))
    corpus = "C08.txt"
    design_ref = "DESIGN.md section 6, C08 — format"
    technique = ("Coq proof over an executable model of formatter::str()/operator%/args(...) and make_string "
                 "(loop invariant relating the regex-iterator loop to the split-based formula; reuse of the proved string layer of C17) "
                 "+ extraction-based differential test against the C++")
    level_text = ("Thirty-seven theorems proved in Coq for ALL format strings (byte lists) and ALL argument lists over a Gallina model that "
                  "follows formatter::str() statement by statement (regex iterator = next occurrence of '{}' in the format after the previous "
                  "match): the loop equals 'pieces of split \"{}\" fmt interleaved with the arguments' exactly when |args| = number of "
                  "left-to-right non-overlapping '{}' and raises otherwise (less / more), the pieces glue back to the format and contain no "
                  "'{}' (text outside placeholders preserved, lone/nested braces included), arguments enter only by substitution into a "
                  "template computed from the format alone (never rescanned), any mixture of operator% and args(...) builds the same "
                  "argument list in the order written; every argument is rendered on its own (marker i receives render(argument i), a function "
                  "of that argument alone: independent of neighbouring arguments — including user types and manipulators that leave "
                  "hex/fixed/precision/fill/boolalpha on their stream — and of formatters used earlier: format_seq), a manipulator passed as "
                  "an argument renders as the empty text; the formatter object is a value (relocating it between two groups of arguments changes "
                  "nothing: reloc_chain); operator<< into the caller's stream is all or nothing (when str() raises the stream is "
                  "unchanged, a pending width still pending) and otherwise inserts the text as ONE item (padded as a whole to the pending "
                  "width/fill/adjustment, width consumed); the exception message is the concatenation of the rendered arguments (for "
                  "arguments that leave the stream state alone: make_string shares one stream) — of their STREAM texts: an argument that is "
                  "also convertible to a string type carries both texts in the model (ADual shown conv) and the message / the formatted text "
                  "is a function of the stream texts alone, the conversion text can be dropped or replaced at every position of a message of "
                  "every length, raise(x) = raise(\"\", x) — and the model's decimal printer "
                  "round-trips. The model is tied to /repo by running the extracted model and the real "
                  "nitro::format / nitro::except::raise (ASan/UBSan build of the working tree) on the same exhaustive + random cases and "
                  "diffing; an oracle extracted from the spec judges every differing observation")
    level_note = ("trusted: Coq kernel, ExtrOcamlBasic extraction, OCaml compiler, the differential harness. PARTIAL: the 'stream "
                  "representation' of an argument is libstdc++'s operator<< into a stringstream; the model takes std::string arguments "
                  "byte for byte and renders long / bool / integer-valued double (|v| < 10^6) / double z+1/2 (|z| < 10^5) arguments, four "
                  "user-defined types (hex, fixed+setprecision(2), setfill+left+setw, boolalpha — none restores the stream), seven kinds of "
                  "argument that are streamable and (six of them) convertible to a string type (implicit operator std::string() with a decorating "
                  "operator<<, std::filesystem::path, implicit operator const char*(), explicit operator std::string(), std::string_view, "
                  "char[16], streamable only) and ten "
                  "manipulators passed as arguments with small printers — those printers are compared with the real operator<< on a "
                  "fresh stream by the driver only (exercised, not proved); other argument types and iword/pword state are not covered; one non-classic global locale (custom "
                  "numpunct) is exercised with a model of its digit grouping (render_loc, exercised only). Exception messages: exception.hpp writes all arguments into ONE stringstream, so a state-changing "
                  "argument does influence later arguments of the same message (raise(hexer{255},16) = \"ff10\"); the message theorem "
                  "and the driver are restricted to arguments that leave the stream state alone. std::regex's search for the literal '{}' is modelled as first occurrence "
                  "(find); the correspondence is bounded-exhaustive + sampled, not proved. Only the char instantiation of the formatter "
                  "is exercised, with string arguments in every value category (const / non-const lvalue, temporary, const char*, char) "
                  "(nitro::format(std::string) and nitro::format(const char*); not wchar_t/char16_t/char32_t, not the _nf "
                  "literal); what() is compared for NUL-free messages only")
    rule = ("exhaustive: every format string over {'{','}','a'} up to a length bound (6 quick, 8 thorough) x every argument count "
            "0..k+1 (k = number of placeholders) x every argument tuple over {\"\", x, {}, {, }} x two call styles (a chain of %, one "
            "args(...) call) plus a random %/args(...)/args() mixture for tuples of >= 2 arguments, and for the exact argument count "
            "also every tuple over the wider alphabet adding a{, }a, {}{}, }{; structured: random longer formats "
            "built from pieces and placeholders with string / long / integer-valued double arguments and arity off by -2..+2; "
            "malformed: random bytes (NUL, high bytes, brace runs); state: every (sticky argument, sensitive argument) pair — sticky = "
            "user type leaving hex/fixed/fill/boolalpha behind or a manipulator, sensitive = long/double/bool/half/string — in one "
            "format via % and via args(...), and across two or three formatter objects used one after the other in one case (seq), "
            "sticky-sticky-sensitive triples, random sequences of 1..4 formatters; stream: operator<< of every format up to length 4 (5 "
            "thorough) x argument counts 0..k+1 into an ostringstream that already holds text, under eight pending width/fill/adjustment "
            "settings, followed by a sentinel item, observing the whole stream content (nothing of the formatter after a raise; one padded "
            "item otherwise), plus random ones; every fmt case also streams into a stream with content and checks the same; exception messages with 1..8 state-neutral arguments; "
            "conversions: seven kinds of argument whose type can be streamed and (six of them) converted to a string type with a different or "
            "equal text x six payload texts, passed in their REAL C++ types to raise(...), raise<derived>(...), exception(...) and "
            "formatter::args(...) / operator%: alone, after / before an empty string, every ordered pair of the nine real kinds "
            "(std::string, long, the seven), and at each of the three positions of a three-argument call between std::string / convertible "
            "fillers; what() is also compared inside the driver with an ostringstream the same arguments were written to; random ones. "
            "Each case starts by putting any per-thread formatting state back to the defaults through the public interface (a no-op on "
            "the current header), so a case line is judged and replayed on its own. "
            "A case is non-trivial when the format has at least one placeholder and at least one argument is supplied, or (exception "
            "cases) when there are >= 2 arguments or an argument of a convertible kind; distinct = distinct case line")
    modelled_note = ("modelled, not verified: std::regex / std::sregex_iterator search for the literal \\{\\} (modelled as next "
                     "occurrence of the two bytes after the previous match), std::stringstream operator<< for std::string (verbatim), "
                     "long, bool, integer-valued double, double z+1/2, four state-changing user types, seven streamable-and-convertible kinds (std::filesystem::path's operator<< = std::quoted) and ten manipulators (small printers for a FRESH "
                     "stream; exercised by the driver only), one fresh stringstream per argument in operator% (tied by the sticky/seq cases), "
                     "std::string::append, operator<<(ostream&, std::string) padding to the pending width and resetting it (pad/insert_str), "
                     "std::runtime_error storing the message")

    def cases(self, tier, rng):
        L = 6 if tier == "quick" else 8
        # (i) exhaustive
        for f in strings("{}a", L):
            k = f.count("{}")
            for n in range(0, k + 2):
                for t in itertools.product(VALS, repeat=n):
                    args = [S(x) for x in t]
                    yield fmt_case(f, chain_pct(args)), "fmt-exh-pct"
                    yield fmt_case(f, chain_args(args)), "fmt-exh-args"
                    if n >= 2 and (tier == "thorough" or rng.random() < 0.5):
                        yield fmt_case(f, chain_mixed(args, rng)), "fmt-exh-mixed"
        # exact arity with a wider argument alphabet (every placeholder gets a value that could disturb a rescanning formatter)
        for f in strings("{}a", L):
            k = f.count("{}")
            if k == 0:
                continue
            for t in itertools.product(VALS2, repeat=k):
                if all(x in VALS for x in t):
                    continue
                args = [S(x) for x in t]
                yield fmt_case(f, chain_pct(args) if rng.random() < 0.5 else chain_args(args)), "fmt-exh-exact"
        # (ii) structured: pieces + placeholders, typed arguments, arity around the right one
        R = 3000 if tier == "quick" else 60000
        lits = ["", "a", "{", "}", "}{", "{{", "}}", "{a}", "{ }", " ", "abc", "%", "{0}", "\\{\\}", "$&", "\n", "{\n}"]
        for _ in range(R):
            k = rng.randint(0, 6)
            parts = [rng.choice(lits) for _ in range(k + 1)]
            f = "{}".join(parts)
            k = f.count("{}")        # neighbouring brace literals may have formed further placeholders
            n = max(0, k + rng.choice([0, 0, 0, 0, 1, -1, 2, -2]))
            args = []
            for _ in range(n):
                r = rng.random()
                if r < 0.45:
                    args.append(S(rng.choice(VALS + ["{}{}", "}{", "{{}}", "a{}b", "abc", " ", "{0}", "$&", "$0", "$1", "\\1", "%s", "%d", "$`", "\\{\\}", "\n"])))
                elif r < 0.75:
                    args.append(("i", rng.choice(INTS) if rng.random() < 0.5 else rng.randint(-10**rng.randint(1, 18), 10**rng.randint(1, 18))))
                else:
                    args.append(("d", rng.choice(DBLS) if rng.random() < 0.5 else rng.randint(-999999, 999999)))
            style = rng.random()
            if style < 0.3:
                ops = chain_pct(args)
            elif style < 0.5 and n <= 8:
                ops = chain_args(args)
            else:
                ops = chain_mixed(args, rng)
            yield fmt_case(f, ops), "fmt-structured"
        # (iii) malformed / arbitrary bytes
        R = 1500 if tier == "quick" else 30000
        for _ in range(R):
            alpha = rng.choice(["{}", "{}a", "{}\x00\xff", "{}\\.*[](", "ab{", "}{\n\r"])
            f = "".join(rng.choice(alpha) for _ in range(rng.randint(0, 40)))
            k = f.count("{}")
            n = max(0, k + rng.choice([0, 0, 0, 1, -1]))
            args = [S("".join(rng.choice(alpha) for _ in range(rng.randint(0, 5)))) for _ in range(n)]
            yield fmt_case(f, chain_mixed(args, rng) if rng.random() < 0.5 else chain_pct(args)), "fmt-bytes"
        # (iv) state must not travel from one argument to the next, nor from one formatter to the next:
        # a sticky argument (user type leaving hex/fixed/fill/boolalpha behind, or a manipulator) followed by a sensitive one
        for st in STICKY:
            for se in SENSITIVE:
                args = [A(st), A(se)]
                yield fmt_case("{}|{}", chain_pct(args)), "fmt-sticky-pair"
                yield fmt_case("{}|{}", chain_args(args)), "fmt-sticky-pair"
                yield "seq %s p:%s / %s p:%s" % (hx("<{}>"), st, hx("[{}]"), se), "seq-sticky-pair"
                yield "seq %s a:%s / %s / %s a:%s" % (hx("{}"), st, hx("a"), hx("{}{}"), se), "seq-sticky-pair"
        trip = [(a, b, c) for a in STICKY for b in STICKY for c in SENSITIVE]
        if tier == "quick":
            trip = rng.sample(trip, 1500)
        for a, b, c in trip:
            args = [A(a), A(b), A(c)]
            yield fmt_case("{} {} {}", chain_mixed(args, rng)), "fmt-sticky-triple"
        R = 1500 if tier == "quick" else 30000
        for _ in range(R):
            fs = []
            for _ in range(rng.randint(1, 4)):
                k = rng.randint(0, 5)
                f = "{}".join(rng.choice(["", "a", " ", "|", "{", "}", "=", "0x"]) for _ in range(k + 1))
                k = f.count("{}")
                n = max(0, k + rng.choice([0, 0, 0, 0, 0, 1, -1]))
                args = []
                for _ in range(n):
                    r = rng.random()
                    if r < 0.4:
                        args.append(A(rng.choice(STICKY)))
                    elif r < 0.85:
                        args.append(A(rng.choice(SENSITIVE)))
                    elif r < 0.93:
                        args.append(("f", rng.randint(-99999, 99999)))
                    else:
                        args.append(("h", rng.randint(0, 2**63 - 1)))
                fs.append([hx(f)] + (chain_mixed(args, rng) if args or rng.random() < 0.3 else []))
            if len(fs) == 1:
                yield "fmt " + " ".join(fs[0]), "fmt-sticky-rand"
            else:
                yield "seq " + " / ".join(" ".join(g) for g in fs), "seq-rand"
        # chain shapes written as ONE expression on a named formatter that is read afterwards through its name (the driver runs
        # every fmt case that way too): f.args(a) % b;  f.args(a).args(b);  (f % a).args(b) % c;  f % a % b;  f.args() % a; ...
        SHAPES = [["a1", "p"], ["a1", "a1"], ["p", "a1", "p"], ["p", "p"], ["a0", "p"], ["a2", "a0"], ["a1", "a0", "a1"], ["a2", "p"],
                  ["p", "a2"], ["a1", "p", "p"], ["a1", "a2"], ["a3"], ["a1"], ["p", "a1"], ["a1", "a1", "a1"]]
        CARGS = ["s61", "i1", "n62", "s7b7d", "i2", "r63"]
        for shape in SHAPES:
            n = sum(1 if s == "p" else int(s[1]) for s in shape)
            for k in sorted(set([max(0, n - 1), n, n + 1])):
                for f in ["-".join(["{}"] * k), "[" + "".join(["{}"] * k) + "]"]:
                    for rot in range(2):
                        args, ops, i = [A(CARGS[(j + rot) % len(CARGS)]) for j in range(n)], [], 0
                        for s in shape:
                            m = 1 if s == "p" else int(s[1])
                            ops.append("p:" + warg(args[i]) if s == "p" else "a:" + wargs(args[i:i + m])); i += m
                        yield fmt_case(f, ops), "fmt-chain-shape"
        # asking for the text in the middle of a chain, also when that raises (too few so far), must not change what follows
        for k in range(0, 4):
            f = "|".join(["{}"] * k) if k else "x"
            for n in sorted(set([max(0, k - 1), k, k + 1])):
                args = [A(CARGS[j % len(CARGS)]) for j in range(n)]
                for qpos in range(0, n + 1):
                    ops = chain_pct(args[:qpos]) + ["q:."] + (chain_args(args[qpos:]) if (qpos + k) % 2 and n > qpos else chain_pct(args[qpos:]))
                    yield fmt_case(f, ops), "fmt-requery"
                    yield fmt_case(f, ops + ["q:.", "q:."]), "fmt-requery"
        # sizes: formats and arguments beyond the small-string buffer and beyond 64 / 255 / 4096 bytes, many placeholders
        SIZES = [15, 16, 17, 63, 64, 65, 255, 256, 257, 1000] + ([4096, 20000] if tier == "thorough" else [4097])
        for size in SIZES:
            for k in [0, 1, 2, 9, 33, 100, 300]:
                if 2 * k > size:
                    continue
                gap = (size - 2 * k) // (k + 1)
                f = ("{}".join([("abcdefghij" * (gap // 10 + 1))[:gap]] * (k + 1)) + "}" * size)[:size] if k else ("{a}" * size)[:size]
                k2 = f.count("{}")
                for n in sorted(set([k2, max(0, k2 - 1), k2 + 1])):
                    args = [("i", j) if j % 3 else S("v%d" % j) for j in range(n)]
                    yield fmt_case(f, chain_pct(args)), "fmt-long"
                    if n <= 8:
                        yield fmt_case(f, chain_args(args)), "fmt-long"
            yield fmt_case("<{}>{}", chain_pct([S("y" * size), S("{}" * (size // 2))])), "fmt-long"
        # the "..."_nf literal (fixed table in the driver), a formatter as an argument of an exception
        LITS = ["", "{}", "a", "a{}b", "{}{}", "{{}}", "}{", "id={} n={}", "0123456789abcdef{}", "{} and {} and {}", "%s {} $& \\{\\}",
                "line\n{}\ttab", "\xe4{}\xff"]
        for f in LITS:
            k = f.count("{}")
            for n in sorted(set([k, max(0, k - 1), k + 1])):
                args = [A(CARGS[j % len(CARGS)]) for j in range(n)]
                yield " ".join(["lit", hx(f)] + chain_pct(args)), "lit"
                yield " ".join(["lit", hx(f)] + chain_mixed(args, rng)), "lit"
                if "\x00" not in f:
                    yield " ".join(["excf", hx(f)] + chain_pct(args)), "excf"
                    yield " ".join(["excf", hx(f)] + chain_mixed(args, rng)), "excf"
        # value categories of string arguments: s const lvalue, n the caller's non-const variable (same text = same variable),
        # r temporary, l const char*, c char — the same variable for several placeholders and again in a later formatter
        POOL = ["n616263", "n78", "s616263", "r616263", "l616263", "c61", "n-"]
        for k in range(1, 4 if tier == "quick" else 5):
            f = "<" + "|".join(["{}"] * k) + ">"
            for tup in itertools.product(POOL, repeat=k):
                args = [A(x) for x in tup]
                yield fmt_case(f, chain_pct(args)), "fmt-valcat"
                yield fmt_case(f, chain_args(args)), "fmt-valcat"
                if k >= 2:
                    yield fmt_case(f, chain_mixed(args, rng)), "fmt-valcat"
        for a in POOL:
            for b in POOL:
                yield "seq %s p:%s / %s a:%s,%s / %s p:%s" % (hx("{}"), a, hx("{}-{}"), b, a, hx("[{}]"), a), "seq-valcat"
                yield "os 8 2a l %s a:%s,%s" % (hx("{}{}"), a, b), "os-valcat"
        R = 800 if tier == "quick" else 10000
        for _ in range(R):
            texts = ["".join(rng.choice("ab{} ") for _ in range(rng.randint(0, 6))) for _ in range(rng.randint(1, 3))]
            fs = []
            for _ in range(rng.randint(1, 3)):
                k = rng.randint(1, 5)
                n = max(0, k + rng.choice([0, 0, 0, 0, 1, -1]))
                args = []
                for _ in range(n):
                    x = rng.choice(texts)
                    kind = rng.choice("nnnnsrl")
                    args.append((kind, hx(x)) if x or kind != "c" else ("s", hx(x)))
                st = rng.random()
                ops = chain_pct(args) if st < 0.3 else chain_args(args) if st < 0.6 and n <= 8 else chain_mixed(args, rng)
                fs.append([hx(" ".join(["{}"] * k))] + ops)
            yield ("fmt " + " ".join(fs[0])) if len(fs) == 1 else ("seq " + " / ".join(" ".join(g) for g in fs)), "valcat-rand"
        # the formatter OBJECT is a value: copy / move construction and assignment, relocation in a growing vector, return by
        # value, swap; source destroyed or reused; formats inside (<= 15 chars) and outside the small-string buffer; arguments
        # given before and/or after the relocation
        SCN = ["mc", "mcd", "mcr", "ma", "mad", "cc", "ccd", "ca", "cad", "vec", "ret", "sw"]
        RFMT = ["", "x", "{}", "a{}", "{}{}", "id={} n={}", "{}{}{}", "0123456789abc{}", "0123456789abcd{}", "0123456789abcde",
                "0123456789abcdef", "the quick brown fox {} jumps over {} lazy dogs", "{} at the start of a long format string"]
        ROTH = ["", "zz{}", "another format string {} that is long"]
        RARG = ["s78", "n616263", "i7", "i-9", "r7b7d", "h255", "l79"]
        for scn in SCN:
            for f in RFMT:
                k = f.count("{}")
                for oth in ROTH:
                    for n in sorted(set([k, max(0, k - 1), k + 1])):
                        args = [A(RARG[(i + len(f)) % len(RARG)]) for i in range(n)]
                        for cut in sorted(set([0, n // 2, n])):
                            pre, post = args[:cut], args[cut:]
                            yield rel_case(scn, f, oth, chain_pct(pre), chain_pct(post)), "rel-exh"
                            if n:
                                yield rel_case(scn, f, oth, chain_args(pre) if pre else [], chain_args(post) if post else []), "rel-exh"
        R = 1500 if tier == "quick" else 30000
        for _ in range(R):
            k = rng.randint(0, 4)
            f = "{}".join("".join(rng.choice("ab{}= ") for _ in range(rng.choice([0, 1, 2, 3, 5, 8, 14, 20]))) for _ in range(k + 1))
            k = f.count("{}")
            oth = rng.choice(ROTH + [f, f[:3]])
            n = max(0, k + rng.choice([0, 0, 0, 0, 1, -1]))
            args = [A(rng.choice(RARG + SENSITIVE)) for _ in range(n)]
            cut = rng.randint(0, n)
            pre = chain_mixed(args[:cut], rng) if cut else []
            post = chain_mixed(args[cut:], rng) if cut < n else []
            yield rel_case(rng.choice(SCN), f, oth, pre, post), "rel-rand"
        # (v) operator<< into the caller's stream: all or nothing, and one item with respect to a pending width
        STREAMS = ["0 20 r", "12 20 r", "12 2a r", "12 2a l", "3 2a l", "1 30 i", "12 2e i", "6 2a r"]
        for f in strings("{}a", 4 if tier == "quick" else 5):
            k = f.count("{}")
            for n in range(0, k + 2):
                for tup in itertools.product(["", "x", "{}"], repeat=n):
                    args = [S(x) for x in tup]
                    for st in STREAMS:
                        yield "os %s %s" % (st, " ".join([hx(f)] + (chain_pct(args) if rng.random() < 0.5 else chain_args(args)))), "os-exh"
        R = 1500 if tier == "quick" else 30000
        for _ in range(R):
            k = rng.randint(0, 4)
            f = "{}".join(rng.choice(["", "a", " b ", "{", "}", "{{", "x{}y", "long text "]) for _ in range(k + 1))
            k = f.count("{}")
            n = max(0, k + rng.choice([0, 0, 0, 1, -1, 2, -2]))
            args = [A(rng.choice(SENSITIVE + STICKY[:10])) if rng.random() < 0.6 else S(rng.choice(VALS2)) for _ in range(n)]
            st = "%d %s %s" % (rng.choice([0, 0, 1, 2, 5, 8, 12, 20, 40]), rng.choice(["20", "2a", "30", "2e"]), rng.choice("lri"))
            yield "os %s %s" % (st, " ".join([hx(f)] + chain_mixed(args, rng))), "os-rand"
        # the program's GLOBAL locale: the same families under a locale with digit grouping and another decimal point (the driver
        # installs it for the case and restores the classic one): numbers >= 1000, fractional doubles, via %, args(...), raise(...),
        # a formatter as an exception argument
        LNUM = ["i1234567", "i-1234567", "i999", "i1000", "i0", "i-1000", "i9223372036854775807", "i-9223372036854775808", "d100000", "d-999999",
                "d1000", "d12", "f1234", "f-1235", "f0", "f-1", "f99999", "b1", "s78", "n616263", "s312c323334"]
        for a in LNUM:
            yield "loc fmt %s p:%s" % (hx("n={}"), a), "loc-fmt"
            yield "loc fmt %s a:%s" % (hx("n={}"), a), "loc-fmt"
            yield "loc exc %s %s" % (warg(S("n=")), a), "loc-exc"
            yield "loc excf %s p:%s" % (hx("n={}"), a), "loc-excf"
            yield "loc lit %s p:%s" % (hx("a{}b"), a), "loc-fmt"
            yield "loc os 12 2a l %s p:%s" % (hx("<{}>"), a), "loc-fmt"
            for b in LNUM[::3]:
                yield "loc fmt %s a:%s,%s" % (hx("{} / {}"), a, b), "loc-fmt"
                yield "loc exc %s %s %s" % (a, warg(S(" ")), b), "loc-exc"
                yield "loc seq %s p:%s / %s p:%s" % (hx("{}"), a, hx("[{}]"), b), "loc-fmt"
                yield "loc rel mc %s - p:%s / p:%s" % (hx("{};{}"), a, b), "loc-fmt"
        R = 600 if tier == "quick" else 10000
        for _ in range(R):
            k = rng.randint(0, 4)
            n = max(0, k + rng.choice([0, 0, 0, 0, 1, -1]))
            args = []
            for _ in range(max(n, 1)):
                r = rng.random()
                if r < 0.45:
                    args.append(("i", rng.randint(-10**rng.randint(1, 18), 10**rng.randint(1, 18))))
                elif r < 0.65:
                    args.append(("d", rng.randint(-999999, 999999)))
                elif r < 0.85:
                    args.append(("f", rng.randint(-99999, 99999)))
                else:
                    args.append(S(rng.choice(["", "x", "1,000", "{}", "3;5"])))
            f = " ".join(["{}"] * k)
            r = rng.random()
            if r < 0.5:
                yield "loc " + fmt_case(f, chain_mixed(args[:n], rng)), "loc-fmt"
            elif r < 0.8:
                yield "loc exc " + " ".join(warg(a) for a in args[:8]), "loc-exc"
            else:
                yield "loc excf " + " ".join([hx(f)] + chain_mixed(args[:n], rng)), "loc-excf"
        # arguments that can be STREAMED and also CONVERTED to a string type, the two texts differing (or the type simply not
        # being std::string): the text used must be the stream text — in a message (raise, raise<E>, direct construction; in
        # their real types) and in a format (% and args(...)) — at arity 1..3, at every position
        for k in DUALK:
            for t in DUALTXT:
                yield "exc " + D(k, t), "exc-dual"                      # alone
                yield "exc s- " + D(k, t), "exc-dual"                   # after an empty first argument: the same text
                yield "exc %s s-" % D(k, t), "exc-dual"
                yield fmt_case("{}", ["p:" + D(k, t)]), "fmt-dual"
                yield fmt_case("[{}]", ["a:" + D(k, t)]), "fmt-dual"
        yield "exc s78", "exc-dual"
        yield "exc i7", "exc-dual"
        for k1 in REALK:
            for k2 in REALK:
                if k1[0] != "v" and k2[0] != "v":
                    continue
                t1, t2 = rng.choice(DUALTXT), rng.choice(DUALTXT)
                yield "exc %s %s" % (real_arg(k1, t1), real_arg(k2, t2)), "exc-dual"
                yield "exc %s %s" % (real_arg(k1, "l"), real_arg(k2, "r", -3)), "exc-dual"
                yield fmt_case("{}={}", ["a:%s,%s" % (real_arg(k1, t1), real_arg(k2, t2))]), "fmt-dual"
                yield fmt_case("{}{}", ["p:" + real_arg(k1, t2), "p:" + real_arg(k2, t1)]), "fmt-dual"
        FILL = ["s", "vt"]
        for pos in range(3):
            for k in DUALK:
                for f1 in FILL:
                    for f2 in FILL:
                        t = rng.choice(DUALTXT)
                        args = [real_arg(f1, "p", 1), real_arg(f2, "q", 22)]
                        args.insert(pos, D(k, t))
                        yield "exc " + " ".join(args), "exc-dual"
                        yield fmt_case("{}|{}|{}", ["a:" + ",".join(args)]), "fmt-dual"
                        if f1 == "s":
                            yield fmt_case("{} {} {}", chain_mixed([A(x) for x in args], rng)), "fmt-dual"
        R = 300 if tier == "quick" else 5000
        for _ in range(R):
            n = rng.randint(1, 3)
            pos = rng.randrange(n)
            args = [real_arg(rng.choice(FILL), "".join(rng.choice("ab \"\\{}") for _ in range(rng.randint(0, 4))), rng.choice(INTS)) for _ in range(n)]
            args[pos] = D(rng.choice(DUALK), "".join(rng.choice("ab \"\\{}/.") for _ in range(rng.randint(0, 8))))
            r = rng.random()
            if r < 0.5:
                yield "exc " + " ".join(args), "exc-dual-rand"
            elif r < 0.6:       # more arguments than the real-type routes take: through the streaming wrapper
                extra = [D(rng.choice(DUALK), rng.choice(DUALTXT)) for _ in range(rng.randint(1, 4))]
                yield "exc " + " ".join(args + extra), "exc-dual-rand"
            else:
                f = " ".join(["{}"] * max(0, n + rng.choice([0, 0, 0, 1, -1])))
                yield fmt_case(f, chain_mixed([A(x) for x in args], rng) if rng.random() < 0.5 else ["a:" + ",".join(args)]), "fmt-dual-rand"
        # exception messages (arguments that leave the stream state alone: see the scope note in FormatModel.v)
        for n in range(1, 4 if tier == "quick" else 5):
            for t in itertools.product(["", "x", "{}", "a b"], repeat=n):
                yield "exc " + " ".join(warg(S(x)) for x in t), "exc-exh"
        for n in range(1, 4):
            for t in itertools.product(["n616263", "n78", "r616263", "l616263", "c61", "s616263"], repeat=n):
                yield "exc " + " ".join(t), "exc-valcat"
        R = 800 if tier == "quick" else 8000
        for _ in range(R):
            n = rng.randint(1, 8)
            args = []
            for _ in range(n):
                r = rng.random()
                if r < 0.5:
                    args.append(S("".join(rng.choice("ab {}:\xe4\n") for _ in range(rng.randint(0, 6)))))
                elif r < 0.75:
                    args.append(("i", rng.choice(INTS)))
                elif r < 0.9:
                    args.append(("d", rng.choice(DBLS)))
                else:
                    args.append(A(rng.choice(["b0", "b1", "f0", "f-1", "f1234", "f-99999"])))
            yield "exc " + " ".join(warg(a) for a in args), "exc-rand"

    def nontrivial(self, case, mobs, iobs):
        kind, f, ops = parse_case(case)
        n = sum(len(a) for _, a in ops)
        if kind in ("fmt", "seq", "lit", "excf"):
            return "{}" in f and n >= 1
        if kind == "os":
            return "{}" in f or n >= 1
        if kind == "rel":
            return True
        return n >= 2 or any(a[0] == "v" for _, l in ops for a in l)

    def signature(self, case, mobs, iobs):
        if case.startswith("loc "):
            return ("loc",) + tuple(self.signature(case[4:], mobs, iobs))
        kind, f, ops = parse_case(case)
        n = sum(len(a) for _, a in ops)
        flat = [a for _, l in ops for a in l]
        kinds = "".join(sorted(set(akind(a) for a in flat)))
        if kind == "os":
            k = f.count("{}")
            ww = case.split()
            width = int(ww[1])
            return ("os", iobs.split(" ")[-1], min(k, 4), max(-2, min(2, n - k)), ww[3], ww[2] == "20",
                    0 if width == 0 else (1 if width <= len(f) else 2), kinds)
        if kind == "rel":
            ww = case.split()
            sep = ww.index("/")
            k = f.count("{}")
            return ("rel", ww[1], (iobs.split(" ") + ["", ""])[1] == "R", len(f) <= 15, len(unhx(ww[3])) <= 15, min(k, 4), max(-1, min(1, n - k)),
                    sep > 4, sep < len(ww) - 1, kinds)
        if kind in ("fmt", "seq", "lit", "excf"):
            k = f.count("{}")
            styles = "".join(sorted(set(c for c, _ in ops)))
            braces_in_args = any(a[0] == "s" and ("7b" in a or "7d" in a) for a in flat)
            # which sticky kind precedes which sensitive kind
            sticky_then = tuple(sorted(set((a[:2] if a[0] == "m" else a[0], b[0]) for i, a in enumerate(flat) for b in flat[i + 1:i + 3]
                                           if a[0] in "hxwtm" and b[0] in "idbfs")))[:4]
            return (kind, case.count(" / "), iobs.split(" ")[0], min(k, 5) if k <= 5 else (6 if k < 64 else 7), min(len(f) // 16, 3) if len(f) < 64 else (4 if len(f) < 256 else 5), max(-2, min(2, n - k)), styles, kinds, braces_in_args,
                    f.startswith("{}"), f.endswith("{}"), "{}{}" in f, sticky_then)
        dual_at = tuple(i for i, a in enumerate(flat) if a[0] == "v")[:3]
        return ("exc", iobs.split(" ")[0], min(n, 8), kinds, dual_at)

    def shrink(self, case):
        if case.startswith("loc "):
            for c in self.shrink(case[4:]):
                yield "loc " + c
            return
        w = case.split()
        if w[0] == "os":
            head = " ".join(w[:4])
            if w[1] != "0":
                yield " ".join(["os", "0"] + w[2:])
                if len(w[1]) > 1:
                    yield " ".join(["os", w[1][:-1]] + w[2:])
            for c in self.shrink("fmt " + " ".join(w[4:])):
                yield head + c[3:]
            return
        if w[0] == "rel":
            sep = w.index("/")
            # simpler scenario, shorter formats, fewer / smaller arguments on either side
            for j in (2, 3):
                o = w[j]
                if o != "-":
                    for b in range(0, len(o), 2):
                        yield " ".join(w[:j] + [(o[:b] + o[b + 2:]) or "-"] + w[j + 1:])
            for lo, hi in ((4, sep), (sep + 1, len(w))):
                if hi > lo:
                    for c in self.shrink("fmt - " + " ".join(w[lo:hi])):
                        cw = c.split()
                        if cw[1] == "-":
                            yield " ".join(w[:lo] + cw[2:] + w[hi:])
            return
        if w[0] in ("fmt", "seq", "lit", "excf"):
            # seq: drop one whole formatter; a single formatter left becomes a fmt case
            if w[0] == "seq":
                groups, cur = [], []
                for x in w[1:]:
                    if x == "/":
                        groups.append(cur); cur = []
                    else:
                        cur.append(x)
                groups.append(cur)
                if len(groups) > 1:
                    for i in range(len(groups)):
                        g2 = groups[:i] + groups[i + 1:]
                        yield "seq " + " / ".join(" ".join(g) for g in g2)
            isfmt = True
            for k in range(1, len(w)):
                o = w[k]
                if o == "/":
                    isfmt = True
                    continue
                if isfmt:
                    isfmt = False
                    # drop one byte of the format (a lit case names an entry of a fixed table: keep it)
                    if o != "-" and w[0] != "lit":
                        for j in range(0, len(o), 2):
                            yield " ".join(w[:k] + [(o[:j] + o[j + 2:]) or "-"] + w[k + 1:])
                    continue
                # drop one op, drop / shorten one argument
                yield " ".join(w[:k] + w[k + 1:])
                body = o[2:]
                el = [] if body == "." else body.split(",")
                if o[0] == "a" and el:
                    for i in range(len(el)):
                        yield " ".join(w[:k] + ["a:" + (",".join(el[:i] + el[i + 1:]) or ".")] + w[k + 1:])
                for i, e in enumerate(el):
                    for e2 in shrink_arg(e):
                        yield " ".join(w[:k] + [o[:2] + ",".join(el[:i] + [e2] + el[i + 1:])] + w[k + 1:])
        else:
            for k in range(1, len(w)):
                if len(w) > 2:
                    yield " ".join(w[:k] + w[k + 1:])
                for e2 in shrink_arg(w[k]):
                    yield " ".join(w[:k] + [e2] + w[k + 1:])

def shrink_arg(e):
    """smaller well-formed arguments only"""
    if e[0] in "snrl":
        h = e[1:]
        if h != "-":
            for j in range(0, len(h), 2):
                yield e[0] + ((h[:j] + h[j + 2:]) or "-")
    elif e[0] == "v":
        h = e[2:]
        if h != "-":
            for j in range(0, len(h), 2):
                yield e[:2] + ((h[:j] + h[j + 2:]) or "-")
    else:
        yield "s-"
        if e[0] in "idfhxw" and len(e) > 2:
            v = e[1:-1]
            yield e[0] + (v if v not in ("", "-") else "0")

CHECK = C08

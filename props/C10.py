# props/C10.py — a disabled log statement costs nothing and evaluates nothing lazily
from props.log_common import LogCheck, VFILES, static_assert_check


class C10(LogCheck):
    prop = "C10"
    vfiles = VFILES + ["Properties/Properties_C10.v"]
    ocaml = dict(name="log_c10", extracted="log_model.ml", glue=("glue_base.ml", "glue_z.ml", "log_lib.ml"), driver="log_c10_driver.ml")
    corpus = "C10.txt"
    level_text = ("Fifteen theorems proved in Coq for ALL minima, thresholds, filter expressions, severities and item lists over the "
                  "model of stream.hpp: the statement's stream type is smart_stream iff severity >= compile-time minimum, a "
                  "null_stream discards every insertion; the run-time filter is asked about the COMPLETE record (severity and tag set: a stream is live iff the gate is open and the filter code accepts the record carrying the statement's tag; a statement rejected for its tag does nothing); a statement that is not enabled (either reason, either form) produces no "
                  "Call, no Format and no Sink event; an enabled one calls exactly the streamed callables, each as often as it was "
                  "streamed, in streaming order, each at the insertion that streams it (named form: the insertion statement emits "
                  "the call iff the stream is live, and live <-> enabled is invariant; one-expression form: after every prefix of "
                  "the chain exactly the prefix's calls have happened and the buffer holds exactly the prefix's text); the C++ shape "
                  "of the callable is carried by the model and provably ignored (a callable is a callable); a callable streamed "
                  "after an insertion that made the statement's stringstream fail is still called exactly once (operator<< tests "
                  "only that the buffer exists; the std stream drops the text). "
                  "Tie: the generated C++ program is compiled at each of the six minima with static_asserts pinning "
                  "decltype(L::trace()/…/fatal()) to null_stream/smart_stream for all 36 (severity, minimum) pairs x 10 loggers, "
                  "the same fact is compared at run time with the extracted model, the gate's >= and the enum order are re-read "
                  "from /repo (Tie/Tie_C05.v), and call/format/sink traces are diffed against the extracted model on the "
                  "complete single-statement space (thorough) / a deterministic grid (quick) plus random programs in which named "
                  "streams interleave with other statements")
    level_note = ("trusted: Coq kernel, extraction, OCaml compiler, gen/tr_severity.py, the differential harness; assumed and only "
                  "exercised: overload resolution for each callable shape the generated program streams in both forms at every "
                  "cell of the (minimum, logger, thresholds, severity) grid — function object, lambda, plain function/function "
                  "pointer, std::function<std::string()> as lvalue and as temporary, std::function<const char*()>, const function "
                  "object, lambda stored in a variable (a std::function returning a number is not a callable for the library: "
                  "is_callable is false and the statement does not compile; pinned by a static_assert); callable types outside this "
                  "list are not exercised; by-value copy of the callable, lifetime of temporaries; "
                  "'costs nothing' is checked as 'no observable evaluation and a stream type without state', not as generated code "
                  "size or time; correspondence is testing, exhaustive only over the finite single-statement space (thorough)")
    rule = ("same case space as C05 (programs over threshold changes, one-expression statements, named streams, stream-type queries; "
            "6 binaries, one per compile-time minimum; incl. the tag-filter grid: user-written filters that accept/reject by tag, alone and under and/or/not with thresholds, tagged and untagged statements in every form, callables in every statement). Callable items carry an id and one of 8 C++ shapes (o l p f F c k v, see "
            "props/log_common.py); every shape occurs alone and after a string item at every (minimum, logger, relevant threshold "
            "setting, severity, form) cell, and in every ordered pair of shapes for two loggers. Items that make the stringstream fail (null const char*, null streambuf*, a user operator<< "
            "setting failbit) occur before, between and after callables; statements also run inside destructors during stack "
            "unwinding, in catch handlers and in destructors on normal exit. Non-trivial: a callable was streamed or something "
            "was delivered. distinct = distinct case line")
    modelled_note = ("modelled, not verified: overload resolution between the lazy (callable) and the eager operator<<, copy of the "
                     "callable into the operator, lifetime of temporaries and copy elision; the stream TYPE is a compiler fact "
                     "checked by static_assert in the generated program and mirrored by LogModel.stream_kind")

    def extra(self, ctx):
        ctx.setdefault("coverage_extra", {})["exhaustive"] = (ctx["tier"] == "thorough")
        static_assert_check(ctx, self.prop)


CHECK = C10

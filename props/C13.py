# props/C13.py — declarations stay unambiguous: one meaning per long name and per letter
import itertools
from lib.framework import Check


def hx(s):
    return s.encode("latin-1").hex() if s else "-"


NAMES = ["a", "b", "no-a"]
LETTERS = ["a", "b", "x"]
BADLETTERS = ["", "ab"]
# "A2" (upper case) sorts BEFORE the key "__default" of the default group in parser::groups_, "g1" after it
GROUPS = ["*", hx("g1"), hx("A2")]
ODDGROUPS = [hx("__default"), "-", "@", hx("0g"), hx("{}%s"), hx("G" * 40), hx("g2")]
XNAMES = ["A", "1", "a" * 40, "\xc3\xa4", "{}", "%s", "a.b", "x-y"]          # special bytes, longer than any SSO buffer
XLETTERS = ["%", "1", "\xe4", "{", "A"]
XBADLETTERS = ["\xc3\xa4", "xyz"]
XMETAVARS = ["%d{}", "M" * 70, "two words"]
KINDS = "omt"
ENVS = ["NITRO_VERIF_E1", "NITRO_VERIF_E2", ""]
METAVARS = ["M", "N", ""]
MOVES = ["MC", "MA", "MS", "MV", "MW", "MB"]


def D(g, k, n):
    return "D:%s:%s:%s" % (g, k, hx(n))


def S(g, k, n, f, a=None):
    return "S:%s:%s:%s:%s" % (g, k, hx(n), f) + ("" if a is None else ":" + hx(a))


def H(kind, g, k, n, f=None, a=None):
    """HD (through a held group&) / HS (through a held option&)"""
    return "%s:%s:%s:%s" % (kind, g, k, hx(n)) + ("" if f is None else ":" + f) + ("" if a is None else ":" + hx(a))


def small_alphabet():
    """22 operations: two names, two groups, all kinds, one letter pair, a move, a parse"""
    ops = [D(g, k, n) for g in ("*", hx("g1")) for k in KINDS for n in ("a", "b")]          # 12
    ops += [S(g, k, "a", "s", "x") for g in ("*", hx("g1")) for k in "ot"]                  # 4
    ops += [S("*", "t", "b", "s", "x"), S("*", "o", "b", "s", "a"), S("*", "o", "a", "s", "ab")]  # 3
    ops += ["G:" + hx("A2"), D(hx("A2"), "t", "b"), "MC", "P"]                              # 4
    # references held by the caller: they bypass parser::group()
    ops += [H("HS", "*", "t", "a", "s", "x"), H("HS", "*", "t", "b", "s", "x"), H("HS", hx("g1"), "o", "a", "s", "x"),
            H("HD", "*", "t", "b", "s", "x"), H("HD", hx("g1"), "t", "b", "s", "x"), H("HD", hx("g1"), "o", "a")]   # 6
    return ops


def large_alphabet():
    ops = [D(g, k, n) for g in GROUPS for k in KINDS for n in NAMES]                        # 27
    ops += [S(g, k, n, "s", c) for g in ("*", hx("g1")) for k in KINDS for n in ("a", "no-a") for c in ("a", "x")]  # 24
    ops += [S("*", "o", "a", "s", c) for c in BADLETTERS] + [S("*", "t", "b", "s", "x")]    # 3
    ops += [S("*", k, "a", "e", e) for k in "ot" for e in ENVS]                             # 6
    ops += [S("*", "m", "a", "m", m) for m in METAVARS] + [S("*", k, "a", "d") for k in KINDS]  # 6
    ops += ["G:" + g for g in (hx("g1"), hx("A2"), hx("__default"))] + MOVES + ["P"]        # 10
    # the same operations in their other forms: description arguments, the default group requested explicitly,
    # a group re-requested with a description, optional(), allow_reverse()
    ops += [D("*", "O", "a"), D(hx("g1"), "T", "a"), D(hx("A2"), "M", "b"), D("@", "o", "a"), D("@", "t", "b"),
            S("@", "t", "a", "s", "x"), "G:%s:%s" % (hx("g1"), hx("described")), "G:%s:%s" % (hx("A2"), hx("other")),
            S("*", "o", "a", "o"), S(hx("g1"), "m", "a", "o"), S("*", "t", "a", "r"), S("*", "t", "b", "r"),
            H("HD", hx("A2"), "t", "b", "s", "x"), H("HD", "*", "t", "a", "r"), H("HS", "*", "o", "a", "o")]   # 15
    ops += [H("HS", g, k, "a", "s", c) for g in ("*", hx("g1")) for k in "ot" for c in ("a", "x")]          # 8
    ops += [H("HS", "*", "o", "a", "d"), H("HS", "*", "t", "b", "s", "x")]                                   # 2
    ops += [H("HD", g, k, n) for g in ("*", hx("g1")) for k in "ot" for n in ("a", "b")]                    # 8
    ops += [H("HD", g, "t", "b", "s", "x") for g in ("*", hx("g1"), hx("g2"))]                              # 3
    return ops


def random_op(rng, hist):
    """mostly aimed at what was declared before, so that re-declarations and conflicts are frequent"""
    r = rng.random()
    g = rng.choice(GROUPS) if rng.random() < 0.88 else rng.choice(ODDGROUPS)
    k = rng.choice(KINDS)
    n = rng.choice(NAMES) if rng.random() < 0.9 else rng.choice(XNAMES)
    if hist and rng.random() < 0.5:
        g0, k0, n0 = rng.choice(hist)
        # same triple, or change exactly one coordinate
        c = rng.randrange(4)
        g, k, n = (g0, k0, n0) if c == 0 else (g, k0, n0) if c == 1 else (g0, k, n0) if c == 2 else (g0, k0, n)
    if hist and rng.random() < 0.25:
        # through a held reference: mostly to something handed out before
        f = rng.choice(["s", "s", "s", "e", "m", "d"])
        a = None if f == "d" else (rng.choice(LETTERS + BADLETTERS[:1] + XLETTERS[:2]) if f == "s" else rng.choice(ENVS) if f == "e" else rng.choice(METAVARS + XMETAVARS[:1]))
        if rng.random() < 0.5:
            return H("HS", g, k, n, f, a) if k in "tT" or rng.random() < 0.85 else H("HS", g, k, n, "o")
        hist.append((g, k, n))
        kk = k.upper() if rng.random() < 0.2 else k
        return H("HD", g, kk, n, f, a) if rng.random() < 0.6 else H("HD", g, kk, n)
    if rng.random() < 0.2:
        k = k.upper()                      # the same call with a description argument
    if r < 0.40:
        hist.append((g, k, n))
        return D(g, k, n)
    if r < 0.65:
        hist.append((g, k, n))
        c = rng.random()
        return S(g, k, n, "s", rng.choice(LETTERS) if c < 0.75 else rng.choice(BADLETTERS + XBADLETTERS) if c < 0.87 else rng.choice(XLETTERS))
    if r < 0.72:
        hist.append((g, k, n))
        return S(g, k, n, "e", rng.choice(ENVS))
    if r < 0.78:
        hist.append((g, k, n))
        return S(g, k, n, "m", rng.choice(METAVARS) if rng.random() < 0.8 else rng.choice(XMETAVARS))
    if r < 0.86:
        hist.append((g, k, n))
        c = rng.random()
        return S(g, k, n, "d") if c < 0.7 else S(g, k, n, "r") if k in "tT" else S(g, k, n, "o")
    if r < 0.90:
        gg = rng.choice(GROUPS[1:]) if rng.random() < 0.8 else rng.choice([x for x in ODDGROUPS if x != "@"])
        return "G:" + gg + (":" + hx(rng.choice(["d1", "another description"])) if rng.random() < 0.4 else "")
    if r < 0.95:
        return rng.choice(MOVES)
    return "P"


class C13(Check):
    prop = "C13"
    vfiles = ["Properties/Properties_C13.v", "Extract/Extract_Decl.v"]
    cpp = dict(name="decl", driver_src="harness/decl_driver.cpp",
               repo_srcs=["src/options/parser.cpp", "src/options/group.cpp", "src/options/option.cpp",
                          "src/options/multi_option.cpp", "src/options/toggle.cpp", "src/env/get.cpp"])
    ocaml = dict(name="decl", extracted="decl_model.ml", glue=("glue_base.ml",))
    corpus = "C13.txt"
    design_ref = "DESIGN.md section 6, C13"
    technique = ("Coq proof by induction over operation lists (simulation between an executable model of group.cpp/parser.cpp/base.hpp "
                 "and a flat-list specification, invariant names-unique) + extraction-based differential test against the C++ under ASan/UBSan "
                 "with the parser object really moved and its source destroyed")
    level_text = ("Theorems for ALL sequences of declaration calls (option/multi_option/toggle on the parser or on named groups, "
                  "short_name/env/metavar/default setters, group(), the same through group&/option& references obtained earlier, moves and "
                  "parses interleaved), proved over a Gallina model that follows "
                  "group::option/multi_option/toggle, parser::group/has_option_with_name/get_all_*/check_parser_consistency and "
                  "crtp_base::short_name/env/metavar: a long name is declared at most once across groups and kinds; the same (group, kind, name) "
                  "returns the identical object and changes nothing; any other re-declaration is the developer error and adds nothing; "
                  "short names must be one character and cannot change; parse is refused with the developer error exactly when two declared "
                  "objects share a letter; in every parser that is not refused each name and each letter reaches at most one object, namely "
                  "the one declared with it; a move is the identity; an operation through a held reference is the operation by name; the whole observable behaviour of the model equals a flat one-list "
                  "specification. The model is tied to /repo by running it and the real parser on the same operation sequences "
                  "(exhaustive to a depth bound + random) and diffing per-call outcomes, object identities, the final parse, probe parses "
                  "per name and letter, usage() order and the settings read back")
    level_note = ("trusted: Coq kernel, ExtrOcamlBasic extraction, OCaml compiler, the differential harness. The correspondence is bounded-"
                  "exhaustive + sampled, not proved. NOT proved, only exercised by the C++ driver under ASan: that moving the parser object "
                  "keeps the groups' back pointer valid (the model's Move is the identity by definition; the driver moves the parser "
                  "heap->heap by construction, by assignment, and via a stack object, destroying the source each time), address identity "
                  "of returned objects, std::map node stability. Map iteration order (sorted by key) is not modelled; the theorems show it "
                  "cannot be observed on reachable states. Known finding K1 (a toggle t next to something called no-t makes the TOKEN --no-t "
                  "ambiguous) is about parsing, not declarations: the declaration API accepts such declarations, the model does too, and the "
                  "name probe skips such names (printed K1); resolution theorems are about the exact names --n and letters -c. "
                  "Names that cannot be spelled (empty, containing '=', starting with '-') are out of scope of the probes; "
                  "allow_reverse() changes no declaration-time state and is the plain declaration in the model; special bytes (>= 0x80, "
                  "'{}', '%', 40-byte names) occur in the random stream only; NUL bytes, blanks and line breaks in names are not generated "
                  "(argv cannot carry NUL; the usage-order read-back splits at blanks)")
    rule = ("operation sequences over 3 names x 3 letters (+ malformed short names, special bytes, 40-byte names) x 3 groups (one sorting "
            "before and one after the default group's key, + \"__default\", \"\", digits, 40 bytes) x 3 kinds, each call in its forms (with/without "
            "description, parser.x / parser.group().x / parser.group(g).x / held group&), six ways of moving the parser, both parse overloads: "
            "plus operations through references the caller holds (HD: declaration through a group& handed out earlier, HS: setter through "
            "an option& handed out earlier; neither calls parser::group() again): "
            "exhaustive to depth 2 over a 112-operation alphabet and depth 3 over a 29-operation alphabet (thorough: depth 3 and 4), every "
            "depth-2 sequence again with a move at every position, a directed stream 'declare, parse, clash through a held reference, "
            "parse' over kinds x groups with a move (or none) at every gap, plus random sequences of <= 6 operations from VERIF_SEED aimed at earlier "
            "declarations (same triple or one coordinate changed); non-trivial = the case has a collision: a developer error, an identity "
            "returned twice, or a refused parse; distinct = distinct case line")
    modelled_note = ("modelled, not verified: C++ object lifetime and move semantics (std::map node stability, the re-pointed group::parser_), "
                     "std::map find/emplace, std::set emplace, getenv (the variables named by a case are unset by the driver); "
                     "exercised only by the driver under ASan: moves of the parser object")

    def cases(self, tier, rng):
        small, large = small_alphabet(), large_alphabet()
        # (i) exhaustive
        for n in (1, 2):
            for t in itertools.product(large, repeat=n):
                yield " ".join(t), "exh-large-%d" % n
        for t in itertools.product(small, repeat=3):
            yield " ".join(t), "exh-small-3"
        # a move at every position of every depth-2 sequence of declarations/setters
        decl_like = [o for o in large if o[0] in "DS"]
        mv = 0
        for a, b in itertools.product(decl_like, repeat=2):
            m = MOVES[mv % 3]
            mv += 1
            yield " ".join([m, a, b]), "move-pos"
            yield " ".join([a, m, b]), "move-pos"
            yield " ".join([a, b, m]), "move-pos"
        # references obtained BEFORE a successful parse, a clash introduced through them afterwards, parse again;
        # a parser move (or none) at every gap; the first object's letter is set fluently or through its handle too
        for g1, g2 in itertools.product(("*", hx("g1"), hx("A2")), repeat=2):
            for k1, k2 in itertools.product(KINDS, repeat=2):
                first = [S(g1, k1, "a", "s", "x")] + ([S(g1, k1, "a", "d")] if k1 != "t" else [])
                second = [D(g2, k2, "b")] + ([S(g2, k2, "b", "d")] if k2 != "t" else [])
                clashes = [[H("HS", g2, k2, "b", "s", "x")],
                           [H("HD", g2, k2, "b", "s", "x")],
                           [H("HD", g2, "t", "no-a", "s", "x")],
                           [H("HS", g2, k2, "b", "s", "a"), H("HS", g2, k2, "b", "s", "x")]]   # no clash, then refused change
                for cl in clashes:
                    for m1, m2, m3 in itertools.product([None, "MA"], [None] + MOVES, [None, "MS"]):
                        seq = first + second + ([m1] if m1 else []) + ["P"] + ([m2] if m2 else []) + cl + ([m3] if m3 else []) + ["P"]
                        yield " ".join(seq), "held-after-parse"
                        # the same with the clash before the first parse, and with the fluent form after it
                        yield " ".join(first + second + cl + ([m2] if m2 else []) + ["P"]), "held-before-parse"
        # declarations after a FAILED parse (refused for a shared letter / user error for a missing value), then parse again
        for g in ("*", hx("g1"), hx("A2")):
            for k in KINDS:
                for m in [None] + MOVES:
                    mv = [m] if m else []
                    for later in ([D(g, k, "no-a")], [S(g, k, "no-a", "s", "x")], [S(g, k, "no-a", "s", "b")], [H("HD", g, k, "no-a", "s", "x")],
                                  [H("HS", "*", "t", "a", "s", "b")], [S("*", "o", "b", "d"), S(g, k, "no-a", "s", "b")]):
                        yield " ".join([S("*", "t", "a", "s", "x"), S(g, "m", "b", "s", "x"), "P"] + mv + later + ["P"]), "after-failed-parse"
                        yield " ".join([S("*", "t", "a", "s", "x"), D("*", "o", "b"), "P"] + mv + later + ["P"]), "after-failed-parse"
        if tier == "thorough":
            for t in itertools.product(large, repeat=3):
                yield " ".join(t), "exh-large-3"
            for t in itertools.product(small, repeat=4):
                yield " ".join(t), "exh-small-4"
        # (ii)/(iii) random, collisions frequent, malformed short names mixed in
        R = 10000 if tier == "quick" else 100000
        for _ in range(R):
            hist = []
            n = rng.randint(1, 6)
            ops = [random_op(rng, hist) for _ in range(n)]
            if rng.random() < 0.5:
                ops.insert(rng.randint(0, len(ops)), rng.choice(MOVES))
            yield " ".join(ops), "random"

    def nontrivial(self, case, mobs, iobs):
        head = iobs.split(" ; ")[0].split()
        oks = [w for w in head if w.startswith("OK") or w.startswith("DEVS")]
        ids = [w.lstrip("OKDEVS") for w in oks]
        return any(w == "DEV" or w.startswith("DEVS") or w == "P=DEV" for w in head) or len(set(ids)) < len(ids) or "F=DEV" in iobs

    def signature(self, case, mobs, iobs):
        head = iobs.split(";")[0].split()
        kinds = tuple(w.rstrip("0123456789") for w in head)
        ops = tuple(w.split(":")[0] + (w.split(":")[4] if w.count(":") >= 4 else "") for w in case.split())
        return (ops, kinds, "F=DEV" in iobs, "K1" in iobs)

    def shrink(self, case):
        w = case.split()
        for i in range(len(w)):
            if len(w) > 1:
                yield " ".join(w[:i] + w[i + 1:])
        # a setter becomes the plain declaration
        for i, x in enumerate(w):
            if x.startswith("S:"):
                yield " ".join(w[:i] + ["D:" + ":".join(x.split(":")[1:4])] + w[i + 1:])
            if x.startswith("HD:") and x.count(":") >= 4:
                yield " ".join(w[:i] + ["HD:" + ":".join(x.split(":")[1:4])] + w[i + 1:])


CHECK = C13

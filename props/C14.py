# props/C14.py — parsing is repeatable: earlier parse calls never leak into later ones
import itertools
from props.opt_common import *

class C14(OptCheck):
    prop = "C14"
    vfiles = ["Properties/Properties_C14.v", "Tie/Tie_C03.v"]
    corpus = "C14.txt"
    oracle_args = ("oracle", "C14")
    design_ref = "DESIGN.md section 6, C14"
    technique = "Coq proof: prepare resets every reachable object state, so the k-th call equals a fresh parser's call for all histories + differential run of call histories on one parser object against the spec of each vector alone"
    level_text = "Theorems: every reachable option-object state is aligned and prepare() resets it, so for ALL histories (also with per-call environments) the k-th call equals a fresh parser's call; outcome = spec of (declaration, vector, environment). The driver additionally compares each call with a freshly built parser inside the C++ process"
    level_note = "trusted: Coq kernel; ExtrOcamlBasic extraction + OCaml; the differential harness (generators, C++ driver through the public API under ASan/UBSan, canonical observation lines); gen/tr_vocab.py for C11. Theorem hypotheses: wf_decl (names non-empty, no '=', not starting with '-', pairwise distinct; letters neither '-' nor '='), no_clash (known finding K1: no toggle foo next to anything called no-foo), aligned state (every reachable state is: C14_reachable_aligned). Modelled, not verified: std::map name order, std::multiset::count on letters, std::getline at ';', getenv, object lifetimes, int overflow of counts (model uses Z), operator>> for typed access (exercised with as<long> on decimal texts only). The tie model=code is bounded-exhaustive + sampled, not proved"
    rule = ("core stream (exhaustive short vectors over declaration-relative tokens for 12 declaration shapes; random vectors, random declarations and environments; 'steps' histories on ONE long-lived parser object — several calls, environment changes, further declarations, move construction, move assignment from a differently declared parser — each call also made on a freshly built identical parser; declarations spread over named groups in a hash-derived order) + histories: 2-4 argument vectors (successful and failing ones in any order) parsed one after another on ONE parser "
            "object; each call's result is compared with the model's history run and judged by the spec of that vector alone (= fresh parser); "
            "exhaustive pairs/triples over 12 vectors for 3 declarations + random histories; non-trivial = history of >= 2 calls; distinct = distinct case line")

    def nontrivial(self, case, mobs, iobs):
        return len(case.split(" ")) > 4

    def cases(self, tier, rng):
        yield from core_stream(tier, rng, 2000 if tier == "quick" else 20000)
        sh = dict(shapes())
        for dn in ["basic-1", "required", "envs"]:
            d = sh[dn]
            vecs = [[], ["--out", "v"], ["-o=w"], ["--inc=1", "-i", "2"], ["-v"], ["-vv", "--all"], ["--no-all"], ["p"], ["--", "-q"],
                    ["--unknown"], ["--out"], ["-vz"], ["--all", "--no-all"], ["p", "q"]]
            envs = [[]] if dn != "envs" else [[], [("N_OUT", "e"), ("N_A", "off"), ("N_INC", "a;b")]]
            for env in envs:
                for h in itertools.product(vecs, repeat=2):
                    yield case(d, env, list(h), kind="hist"), "history-2"
                if tier == "thorough":
                    for h in itertools.product(vecs, repeat=3):
                        yield case(d, env, list(h), kind="hist"), "history-3"
        # calls interleaved with environment changes, further declarations and moves of the parser object
        yield from reuse_stream(tier, rng, 6000 if tier == "quick" else 60000)
        shl = shapes()
        for _ in range(6000 if tier == "quick" else 60000):
            name, d = rng.choice(shl) if rng.random() < 0.6 else ("random", random_decl(rng))
            toks = tokens_for(d, rich=True)
            h = []
            for _ in range(rng.randint(2, 4)):
                h.append(render_assignment(d, rng) if rng.random() < 0.6 else [rng.choice(toks) for _ in range(rng.randint(0, 4))])
            yield case(d, random_env(d, rng), h, kind="hist"), "history-rand"

CHECK = C14

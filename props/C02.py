# props/C02.py — every spelling of a command line parses back to the assignment it spells
from props.opt_common import *

class C02(OptCheck):
    prop = "C02"
    vfiles = ["Properties/Properties_C02.v", "Tie/Tie_C04.v"]
    corpus = "C02.txt"
    oracle_args = ("oracle", "C02")
    design_ref = "DESIGN.md section 6, C02"
    technique = "Coq proof: parse (render items tail) = assignment items tail for every well-formed item list (round trip through explain) + differential run over random renderings of intended assignments"
    level_text = 'Theorem C02_render_parse_roundtrip: for ALL declarations, item lists satisfying the boolean wf_items and tails, parse(render items tail) = assignment items tail, values being arbitrary byte strings; both lexical round trips (render_explain, explain_render); K1 refutation witness proved. Tied by differential runs over random renderings of intended assignments + typed as<long> stream'
    level_note = "trusted: Coq kernel; ExtrOcamlBasic extraction + OCaml; the differential harness (generators, C++ driver through the public API under ASan/UBSan, canonical observation lines); gen/tr_vocab.py for C11. Theorem hypotheses: wf_decl (names non-empty, no '=', not starting with '-', pairwise distinct; letters neither '-' nor '='), no_clash (known finding K1: no toggle foo next to anything called no-foo), aligned state (every reachable state is: C14_reachable_aligned). Modelled, not verified: std::map name order, std::multiset::count on letters, std::getline at ';', getenv, object lifetimes, int overflow of counts (model uses Z), operator>> for typed access (exercised with as<long> on decimal texts only). The tie model=code is bounded-exhaustive + sampled, not proved"
    rule = ("core stream (exhaustive short vectors over declaration-relative tokens for 12 declaration shapes; random vectors, random declarations and environments; 'steps' histories on ONE long-lived parser object — several calls, environment changes, further declarations, move construction, move assignment from a differently declared parser — each call also made on a freshly built identical parser; declarations spread over named groups in a hash-derived order) + rendering stream: draw a declaration (12 shapes + random ones), an intended assignment (value per option from a "
            "14-value alphabet incl. empty, '=', blanks, LF, non-ASCII, option-like strings; 0-3 values per multi-option; 0-3 occurrences or a "
            "negation per toggle; 0-3 positionals inline or after --), choose long/short/= form per occurrence, bundle toggle letters, permute; "
            "typed stream: decimal texts read back with as<long>; non-trivial = at least one token; distinct = distinct case line")

    def cases(self, tier, rng):
        yield from core_stream(tier, rng, 3000 if tier == "quick" else 30000)
        sh = shapes()
        N = 30000 if tier == "quick" else 300000
        for _ in range(N):
            if rng.random() < 0.6:
                name, d = rng.choice(sh)
            else:
                name, d = "random", random_decl(rng)
            yield case(d, random_env(d, rng) if rng.random() < 0.3 else [], [render_assignment(d, rng)]), "render-" + ("shape" if name != "random" else "randdecl")
        # typed access: decimal texts
        dsh = dict(sh)
        d = dsh["basic-2"]
        nums = [0, 1, -1, 7, 42, -42, 2147483647, -2147483648, 4294967296, 9223372036854775807, -9223372036854775807, 100000, 12345678901]
        for v in nums:
            for form in (["--out=%d" % v], ["-o=%d" % v]) + ((["--out", "%d" % v], ["-o", "%d" % v]) if v >= 0 else ()):
                yield case(d, [], [list(form)], kind="parsel"), "typed"
        # zero-padded and signed decimal texts (must be read as DECIMAL: "010" is ten)
        for txt in ["010", "007", "08", "09", "0100", "00", "-010", "-08", "+5", "+012", "0x10", "1e3", " 7", "7 ", "0"]:
            yield case(d, [], [["--out=" + txt]], kind="parsel"), "typed-padded"
            yield case(d, [], [["--out=1", "--inc=" + txt, "-i=" + txt]], kind="parsel"), "typed-padded"
        for _ in range(300 if tier == "quick" else 3000):
            v = rng.randint(-10**rng.randint(1, 18), 10**rng.randint(1, 18))
            multi = []
            for _ in range(rng.randint(0, 3)):
                m = rng.randint(-10**rng.randint(1, 9), 10**rng.randint(1, 9))
                multi += rng.choice([["--inc=%d" % m], ["-i=%d" % m]] + ([["--inc", "%d" % m], ["-i", "%d" % m]] if m >= 0 else []))
            yield case(d, [], [["--out=%d" % v, "--log=%d" % rng.randint(0, 10**9)] + multi], kind="parsel"), "typed"

CHECK = C02

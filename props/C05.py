# props/C05.py — a log statement reaches the sink exactly once iff it is enabled, unaltered
from props.log_common import LogCheck, VFILES, OCAML


class C05(LogCheck):
    prop = "C05"
    vfiles = VFILES + ["Properties/Properties_C05.v"]
    ocaml = OCAML
    corpus = "C05.txt"
    level_text = ("Twenty-seven theorems proved in Coq for ALL compile-time minima, thresholds, filter expressions (and/or/not/null over any "
                  "number of threshold filters and user-written tag-reading filters, incl. the not<not<F>> specialisation and towers of n negations; the filter verdict is the one on the delivered record, tag included), severities, tags, item lists and sequence "
                  "sizes, over a Gallina model that follows stream.hpp/logger.hpp statement by statement (smart_stream's two "
                  "unique_ptrs, move construction along the << chain, destruction order of the temporaries, null_stream): the "
                  "trace of a statement in either syntactic form is exactly [calls; one Format; one Sink per member in declaration "
                  "order] carrying the statement's severity, tag and the concatenation of the items iff enabled and [] otherwise; "
                  "forms agree; whole programs (named streams with overlapping lifetimes, threshold changes) refine a spec of "
                  "logical streams; records arrive in program order; the filter combinators are the boolean connectives; runtime "
                  "thresholds are keyed by (record type, filter index): configuring one record type's filter changes no statement, "
                  "stream or getter of a logger over another record type; a nested sequence sink delivers exactly like the flat "
                  "sequence of its leaves (same text to every leaf, declaration order); the context a statement is executed in "
                  "(straight-line, destructor during stack unwinding, catch handler, destructor on normal exit) and the named-local "
                  "form change nothing; the message is the concatenation of everything streamed up to an item that makes the "
                  "std::stringstream fail (modelled as the code behaves). "
                  "Tie: severity order, both >= comparisons and the storage of the threshold (a static member of severity_filter<Record, N>) are re-read from /repo on every run (Gen/GenSeverity.v, Tie/Tie_C05.v), "
                  "and the extracted model is diffed against a generated C++ program built from the working tree at each of the six "
                  "minima (ASan/UBSan) on the complete space of single statements (thorough) / a deterministic grid (quick) plus "
                  "random programs; an oracle extracted from the spec judges every differing observation")
    level_note = ("trusted: Coq kernel, ExtrOcamlBasic extraction, OCaml compiler, gen/tr_severity.py, the differential harness; "
                  "assumed and only exercised by the driver: C++ temporaries' lifetime and guaranteed copy elision (the number of "
                  "moves per <<), template overload selection (callable vs. value), std::unique_ptr, std::stringstream rendering "
                  "of numbers (modelled as decimal), std::tuple/initializer-list evaluation order in tuple_foreach, how a sink member "
                  "binds the text it is handed (const&, by value, rvalue overload: the model hands every leaf the same text); the timestamp "
                  "attribute is not observed; single thread only (C09 covers the *_mt sinks); correspondence is exhaustive over "
                  "the finite statement space in the thorough tier and sampled for multi-statement programs, not proved")
    rule = ("cases are programs `m<min> op…` over: threshold changes, one-expression statements, named stream objects "
            "(open/put/close in 4 variables) and stream-type queries, for 23 logger types (filter shapes of depth <= 3 over two "
            "threshold filters and the null filter, 11 of them with user-written filters that accept/reject by the record's tag alone and under and/or/not with thresholds, not-towers of depth 2-3 over every leaf kind, exercised by a tag-filter grid over 7 tags incl. near misses of the filter's text; sink trees with 1-4 leaves: flat and nested sequences whose leaves take the text by const reference, by value or "
            "by rvalue overload, the by-value/rvalue/nested member in first, middle and last position; two record types with different attribute sets "
            "sharing the filter indices, one of them without a tag attribute), statements executed in four contexts (incl. inside a destructor while an exception propagates), items that put "
            "the stringstream into fail()/bad() before/between/after callables, threshold getters, and cross-record programs that "
            "set one record type's threshold after/before the other's and log on both with severities between the two. quick: every (minimum, logger, relevant threshold "
            "setting, severity, form) with rotating item shapes/tags + all 118 item shapes x forms x tags x severities x minima "
            "under two loggers (incl. all ordered pairs of the 8 callable shapes) + every callable shape at every grid cell + random programs and statement sequences from VERIF_SEED; thorough: the complete single-statement "
            "space (all minima x loggers x relevant thresholds x severities x 2 forms x tag/no tag x every instantiated item "
            "shape) + 900k random programs and statement sequences. Non-trivial: something was delivered or a callable was streamed. distinct = distinct case line")
    modelled_note = ("modelled, not verified: lifetime of the temporaries of a << chain and copy elision (one move per <<), overload "
                     "resolution between the callable and the value operator<<, unique_ptr semantics, decimal rendering of "
                     "integers by std::ostream, evaluation order inside lang::tuple_foreach; string_ref tags end at the first NUL; "
                     "timestamps are not observed")

    def extra(self, ctx):
        ctx.setdefault("coverage_extra", {})["exhaustive"] = (ctx["tier"] == "thorough")
        ctx["coverage_extra"]["exhaustive_scope"] = ("the single-statement space is enumerated completely in the thorough tier; "
                                                     "multi-statement programs are sampled")


CHECK = C05

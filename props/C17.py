# props/C17.py — split, join, replace_all, starts_with
import itertools
from lib.framework import Check

def hx(s):
    return s.encode("latin-1").hex() if s else "-"
def wl(l):
    return ",".join(hx(x) for x in l) if l else "."
def strings(alpha, maxlen):
    for n in range(maxlen + 1):
        for t in itertools.product(alpha, repeat=n):
            yield "".join(t)
def unhx(h):
    return "" if h == "-" else bytes.fromhex(h).decode("latin-1")

class C17(Check):
    prop = "C17"
    vfiles = ["Properties/Properties_C17.v", "Tie/Tie_C17.v"]
    cpp = dict(name="str", driver_src="harness/str_driver.cpp")
    ocaml = dict(name="str", extracted="str_model.ml", glue=("glue_base.ml",))
    corpus = "C17.txt"
    design_ref = "DESIGN.md section 6, C17"
    technique = ("Coq proof over an executable model of string.hpp (induction on fuel/lists); the four function bodies are re-translated from "
                 "the source by clang on every run and proved equal to the model for all inputs (Tie_C17, loop invariants over a small "
                 "imperative language); + extraction-based differential test against the C++")
    level_text = ("Nine theorems (lossless split, piece count, clean pieces, empty-needle raise, replace_all = single left-to-right pass and "
                  "always returns, starts_with = prefix relation, join = intercalate of the non-empty elements) proved in Coq for ALL byte strings "
                  "over a Gallina model that follows the C++ loops; the model is tied to /repo (a) by translation: gen/tr_string.py re-reads the bodies "
                  "of split, replace_all, starts_with and the iterator overload of join from clang's AST on every run into statements of a small "
                  "imperative language (Str/StrLang.v), and Tie_C17 (4 theorems, loop invariants by induction on the fuel / the element list) "
                  "proves for ALL byte strings that the interpreter run on those bodies returns exactly the model's split / replace_all / "
                  "starts_with / join; an unknown construct is SUnknown, on which the interpreter is stuck and no obligation is provable; (b) by running the extracted model and the real "
                  "functions (ASan/UBSan build of the working tree) on the same exhaustive + random cases and diffing; an oracle extracted "
                  "from the spec judges every differing observation")
    level_note = ("trusted: Coq kernel, ExtrOcamlBasic extraction, OCaml compiler, the differential harness, gen/tr_string.py's reading of the "
                  "clang AST and the meaning StrLang.v gives to find/substr/replace/size/empty/+=/emplace_back and to the "
                  "stringstream element-rendering idiom of join (sizes are unbounded naturals; size_t wrap-around not modelled); assumed: libstdc++ "
                  "std::string::find/substr/replace, stringstream rendering of join elements (only std::string elements are exercised); "
                  "the correspondence is bounded-exhaustive + sampled, not proved")
    rule = ("exhaustive strings over {a,b,' '} up to a length bound x all needles/patterns (incl. empty, overlapping, self-containing) "
            "x replacements, all element lists for join, plus random long strings from VERIF_SEED; a case is non-trivial when the "
            "needle/pattern occurs at least once (split/replace), when the prefix is non-empty (starts_with), or when the list has "
            ">=2 elements (join); distinct = distinct case line")
    modelled_note = ("modelled, not verified: std::string::find/substr/replace and std::stringstream rendering of elements "
                     "(join is exercised with std::string elements only)")

    def cases(self, tier, rng):
        A = "ab "
        L = 5 if tier == "quick" else 7
        ss = list(strings(A, L))
        needles = list(strings(A, 2 if tier == "quick" else 3))
        reps = list(strings(A, 1 if tier == "quick" else 2)) + ["aa", "ab"]
        for s in ss:
            for n in needles:
                yield "split %s %s" % (hx(n), hx(s)), "split-exh"
        pats = list(strings(A, 2))
        for s in (ss if tier == "thorough" else list(strings(A, 4))):
            for p in pats:
                for r in reps:
                    yield "replace %s %s %s" % (hx(p), hx(r), hx(s)), "replace-exh"
        # the subject string passed again as pattern and/or replacement (aliasing references)
        for a in list(strings(A, 4 if tier == "quick" else 5)):
            yield "replacea 3 %s -" % hx(a), "replace-alias"
            for b in list(strings(A, 2)):
                yield "replacea 1 %s %s" % (hx(a), hx(b)), "replace-alias"
                yield "replacea 2 %s %s" % (hx(a), hx(b)), "replace-alias"
        # ranges of characters (std::string iterators, vector<unsigned char>, const char*): elements are characters
        for t in list(strings("a1 ", 3)) + ["abc", "0129", "\x00a", "\xffz"]:
            for i in ["", ",", "--"]:
                yield "joinc %s %s" % (hx(i), hx(t)), "join-char-ranges"
        # the default infix (one blank) of both join overloads
        for n in range(0, 4):
            for l in itertools.product(["", "a", "b ", " "], repeat=n):
                yield "joind %s" % wl(l), "join-default-infix"
        # single-pass iterators (std::istream_iterator) through the iterator overload of join
        words = ["a", "b", "ab", "-", "a,b"]
        for n in range(0, 4 if tier == "quick" else 5):
            for l in itertools.product(words, repeat=n):
                for i in ["", ",", " ", ", "]:
                    yield "joinw %s %s" % (hx(i), wl(l)), "join-single-pass"
        # elements with their own operator<<: one that calls join itself (re-entrancy), one that leaves std::hex set on the
        # stream it is given (no state may survive from one element, call or nested call to the next)
        cells = ["", "a", "b", "ab"]
        rows = [list(r) for n in range(0, 3) for r in itertools.product(cells, repeat=n)]
        for n in range(0, 3 if tier == "quick" else 4):
            for rs in itertools.product(rows[:12] if tier == "quick" else rows, repeat=n):
                for i, inner in [(";", ","), ("", ","), (",", ""), (", ", " ")]:
                    yield "joinn %s %s %s" % (hx(i), hx(inner), "/".join(wl(r) for r in rs) or "."), "join-nested"
        for n in range(0, 5):
            for _ in range(30 if tier == "quick" else 300):
                l = [rng.choice([0, 1, 9, 10, 11, 15, 16, 255, 256, 4096, -1, 123456789]) for _ in range(n)]
                yield "joinh %s %s" % (hx(rng.choice(["", ",", " "])), ",".join(str(x) for x in l) or "."), "join-hex-elements"
        sw = list(strings(A, 3 if tier == "quick" else 4))
        for f in sw:
            for p in sw:
                yield "starts %s %s" % (hx(f), hx(p)), "starts-exh"
        # bytes that C-string functions treat specially: NUL inside std::string, 0xff (negative as signed char)
        Z = "a\x00\xff"
        zs = list(strings(Z, 3 if tier == "quick" else 4))
        for f in zs:
            for p in zs:
                yield "starts %s %s" % (hx(f), hx(p)), "starts-exh-nul"
        zn = list(strings("a\x00", 2))
        for s_ in list(strings("a\x00", 4 if tier == "quick" else 6)):
            for n in zn:
                yield "split %s %s" % (hx(n), hx(s_)), "split-exh-nul"
                for r in ["", "\x00", "a\x00"]:
                    yield "replace %s %s %s" % (hx(n), hx(r), hx(s_)), "replace-exh-nul"
        for l in itertools.product(["", "\x00", "a", "\x00a"], repeat=3):
            for i in ["", "\x00", ","]:
                yield "join %s %s" % (hx(i), wl(l)), "join-exh-nul"
        elems = list(strings("a ", 2))
        for n in range(0, 4 if tier == "quick" else 5):
            for l in itertools.product(elems, repeat=n):
                for i in ["", ",", " ", ", ", "a"]:
                    yield "join %s %s" % (hx(i), wl(l)), "join-exh"
        # non-string elements (join renders them through a stringstream)
        for n in range(0, 5):
            for _ in range(20 if tier == "quick" else 200):
                l = [rng.choice([0, 1, -1, 7, 10, -42, 123456789, 2**40]) for _ in range(n)]
                yield "joini %s %s" % (hx(rng.choice(["", ",", " ", "0", "-"])), ",".join(str(x) for x in l) or "."), "join-ints"
        # bytes that mean something to pattern or format-string languages (a literal text function must not care)
        META = ".*+?()[]{}\\^$|&1-"
        for _ in range(1500 if tier == "quick" else 15000):
            s_ = "".join(rng.choice(META + "ab") for _ in range(rng.randint(0, 12)))
            if s_ and rng.random() < 0.8:
                i = rng.randrange(len(s_)); nd = s_[i:i + rng.randint(1, 3)]
            else:
                nd = "".join(rng.choice(META) for _ in range(rng.randint(1, 2)))
            rep = rng.choice(["", "$&", "$1", "$$", "\\1", "$`", "$'", "&", "x", nd + nd, "(" + nd + ")"])
            k = rng.random()
            if k < 0.6:
                yield "replace %s %s %s" % (hx(nd), hx(rep), hx(s_)), "replace-meta"
            elif k < 0.8:
                yield "split %s %s" % (hx(nd), hx(s_)), "split-meta"
            else:
                yield "starts %s %s" % (hx(s_), hx(s_[:rng.randint(0, len(s_))] if rng.random() < 0.6 else nd)), "starts-meta"
        for ch in META:
            yield "replace %s %s %s" % (hx(ch), hx("_"), hx("a" + ch + "b" + ch + "c")), "replace-meta"
            yield "replace %s %s %s" % (hx("b"), hx("$" + ch), hx("abc")), "replace-meta"
            yield "split %s %s" % (hx(ch), hx("a" + ch + "b" + ch + "c")), "split-meta"
        # very long inputs: many occurrences, overlapping patterns, replacement containing the pattern
        for n in ([20000] if tier == "quick" else [20000, 60000]):
            yield "replace %s %s %s" % (hx("aa"), hx("a"), hx("a" * n)), "long"
            yield "replace %s %s %s" % (hx("a"), hx("aa"), hx("ab" * (n // 2))), "long"
            yield "replace %s %s %s" % (hx("ab"), hx("xaby"), hx("ab" * (n // 2))), "long"
            yield "split %s %s" % (hx("a"), hx("a" * n)), "long"
            yield "split %s %s" % (hx("ab"), hx("abab" * (n // 4) + "a")), "long"
            yield "starts %s %s" % (hx("a" * n), hx("a" * (n - 1) + "b")), "long"
        # random long strings, needle drawn from the string itself so that it occurs
        R = 4000 if tier == "quick" else 40000
        for _ in range(R):
            n = rng.randint(0, 200)
            alpha = rng.choice(["ab", "ab ", "a", "abc\n\t", "\x00\xff a"])
            s = "".join(rng.choice(alpha) for _ in range(n))
            if s and rng.random() < 0.8:
                i = rng.randrange(len(s)); j = min(len(s), i + rng.randint(1, 4))
                nd = s[i:j]
            else:
                nd = "".join(rng.choice(alpha) for _ in range(rng.randint(0, 3)))
            rep = rng.choice(["", nd, nd + nd, "x", nd[:1], "a" + nd, nd + "a"])
            k = rng.random()
            if k < 0.3:
                yield "split %s %s" % (hx(nd), hx(s)), "split-rand"
            elif k < 0.7:
                yield "replace %s %s %s" % (hx(nd), hx(rep), hx(s)), "replace-rand"
            elif k < 0.85:
                yield "starts %s %s" % (hx(s), hx(s[:rng.randint(0, len(s))] if rng.random() < 0.7 else nd)), "starts-rand"
            else:
                parts = s.split(" ")
                yield "join %s %s" % (hx(rng.choice(["", " ", ",", nd])), wl(parts)), "join-rand"

    def nontrivial(self, case, mobs, iobs):
        w = case.split()
        if w[0] == "split":
            return "," in iobs
        if w[0] == "replace":
            return w[1] != "-" and unhx(w[1]) in unhx(w[3])
        if w[0] == "starts":
            return w[2] != "-"
        if w[0] == "replacea":
            return w[2] != "-"
        if w[0] == "joinc":
            return len(w[2]) > 2
        if w[0] == "joind":
            return "," in w[1]
        if w[0] == "joinn":
            return "/" in w[3]
        if w[0] == "joinh":
            return "," in w[2]
        if w[0] in ("join", "joini", "joinw"):
            return "," in w[2]
        return False

    def signature(self, case, mobs, iobs):
        w = case.split()
        return (w[0], iobs.split(" ")[0], min(iobs.count(","), 4), min(len(case) // 16, 6))

    def shrink(self, case):
        w = case.split()
        if w[0] == "joinn":
            rows = w[3].split("/") if w[3] != "." else []
            for i in range(len(rows)):
                yield " ".join(w[:3] + ["/".join(rows[:i] + rows[i+1:]) or "."])
            for i, r in enumerate(rows):
                el = r.split(",") if r != "." else []
                for j in range(len(el)):
                    yield " ".join(w[:3] + ["/".join(rows[:i] + [",".join(el[:j] + el[j+1:]) or "."] + rows[i+1:])])
            return
        if w[0] == "joind":
            el = w[1].split(",") if w[1] != "." else []
            for i in range(len(el)):
                yield " ".join(w[:1] + [",".join(el[:i] + el[i+1:]) or "."])
            return
        if w[0] == "joinh":
            el = w[2].split(",") if w[2] != "." else []
            for i in range(len(el)):
                yield " ".join(w[:2] + [",".join(el[:i] + el[i+1:]) or "."])
            return
        # drop one byte from one of the hex fields / one list element
        for k in range(2 if w[0] == "replacea" else 1, len(w)):
            f = w[k]
            if "," in f or (w[0] in ("join", "joinw") and k == 2):
                el = f.split(",") if f != "." else []
                for i in range(len(el)):
                    yield " ".join(w[:k] + [",".join(el[:i] + el[i+1:]) or "."] + w[k+1:])
                for i, e in enumerate(el):
                    if e != "-":
                        for j in range(0, len(e), 2):
                            yield " ".join(w[:k] + [",".join(el[:i] + [(e[:j] + e[j+2:]) or "-"] + el[i+1:])] + w[k+1:])
            elif f != "-":
                for j in range(0, len(f), 2):
                    yield " ".join(w[:k] + [(f[:j] + f[j+2:]) or "-"] + w[k+1:])

CHECK = C17

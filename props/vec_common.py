# props/vec_common.py — shared by C06 and C07: case generators for the fixed_vector operation-sequence interpreter
# (wire format: see ocaml/vec_driver.ml), a small Python reference of the bounded-list semantics that the random
# generator uses to keep its sequences mostly valid (third opinion in self_test() only; never used as a verdict),
# non-triviality / signature / shrinking.
import itertools, re
from lib.framework import Check

NPOOL = 3


def lst(xs):
    return "".join(str(x) for x in xs) if xs else "_"


# ------------------------------------------------------------------ exhaustive alphabets
def alphabet(c, full=True, copyable=True):
    """mutating operations on object 0 of capacity c (object 1 exists, object 2 is free);
    the state of every written object is printed after each step, so read-only operations need no place here"""
    A = ["eb,0,%d" % v for v in ((1, 2) if full else (1,))]
    A += ["im,0,2"]
    # no arguments: a value-initialised element T() is appended / inserted (must be T() after ANY history: erase,
    # pop_back, refused operations, assignment from a shorter vector, re-assigned moved-from objects)
    A += ["ebd,0", "emd,0,0"] + (["emd,0,%d" % c] if full and c > 0 else [])
    if copyable:
        A += ["in,0,1", "pb,0,3"]
    A += ["em,0,%d,%d" % (p, v) for p in range(c + 1) for v in ((1, 2) if full else (2,))]
    A += ["po,0"]
    A += ["er,0,%d" % p for p in range(c + 1)]
    if copyable:
        A += ["pr,0,_", "pr,0,2", "pr,0,31"] + (["pr,0," + lst([1, 2, 3, 1][: c + 1])] if full else [])
        A += ["ir,0,%d,%s" % (p, x) for p in range(c + 1) for x in (("3", "12") if full else ("12",))]
        A += ["cp,2,0", "as,0,1", "la,0,31", "as,1,0"]
    A += ["mv,2,0", "ma,0,1"]
    return A


def exhaustive(variant, caps, depth, full):
    copyable = variant in "CTPS"
    for c in caps:
        A = alphabet(c, full, copyable)
        pre = "%s n,0,%d %s" % (variant, c, "nl,1,12" if copyable else "n,1,2 eb,1,1 eb,1,2")
        for s in itertools.product(A, repeat=depth):
            yield pre + " " + " ".join(s)


def small_alphabet_cases(variant, caps, depth):
    """deeper sequences over a reduced alphabet that still contains every kind of operation"""
    for c in caps:
        A = ["eb,0,1", "ebd,0"] + ["em,0,%d,2" % p for p in range(c + 1)] + ["po,0"] + ["er,0,%d" % p for p in range(c + 1)]
        A += ["pr,0,31", "ir,0,%d,12" % min(1, c), "as,0,1", "mv,2,0"]
        pre = "%s n,0,%d nl,1,12" % (variant, c)
        for s in itertools.product(A, repeat=depth):
            yield pre + " " + " ".join(s)


def ctor_cases(variant, caps, faults=False):
    """the public constructor fixed_vector(capacity, iterable) with iterables of length 0..capacity+3 from every source
    kind (std::vector, std::list, std::array, std::initializer_list, another fixed_vector), into an empty slot and over
    an existing object; and range insert / push_back from a single-pass input iterator at every position"""
    for c in caps:
        for L in range(0, c + 4):
            xs = lst(range(1, L + 1))
            kinds = ["nf,0,%d,%s" % (c, xs), "nfl,0,%d,%s" % (c, xs)] + (["nfa,0,%d,%s" % (c, xs)] if L <= 6 else []) + \
                    (["nfi,0,%d,%s" % (c, xs)] if L <= 5 else [])
            plans = range(L + 1) if faults else [None]
            for k in kinds:
                for pl in plans:
                    kk = k if pl is None else "%s!%d" % (k, pl)
                    yield "%s %s eb,0,9 er,0,0" % (variant, kk)
                    yield "%s n,0,2 eb,0,1 %s eb,0,9" % (variant, kk)
            if L <= 5:
                for pl in plans:
                    kk = "nfv,0,%d,1" % c if pl is None else "nfv,0,%d,1!%d" % (c, pl)
                    yield "%s nl,1,%s %s eb,0,9 er,1,0 at,0,0" % (variant, xs, kk)
                    yield "%s nl,1,%s n,0,1 eb,0,1 %s po,0" % (variant, xs, kk)
        for n in range(c + 1):
            pre = "%s nf,0,%d,%s" % (variant, c, lst(range(1, n + 1)))
            for L in range(0, 4):
                ys = lst(range(6, 6 + L))
                plans = range(L + 1) if faults else [None]
                for pl in plans:
                    sfx = "" if pl is None else "!%d" % pl
                    yield "%s prs,0,%s%s eb,0,9" % (pre, ys, sfx)
                    for pos in range(c + 1):
                        yield "%s irs,0,%d,%s%s eb,0,9" % (pre, pos, ys, sfx)


def forms_cases(variant, caps):
    """the overloads / value categories / argument forms behind one operation (suffix ~f, same operation for the model):
    emplace_back / emplace with the native constructor argument as rvalue or lvalue, a temporary element, std::move of a
    named element, a const element, several constructor arguments; insert / push_back with lvalue, const lvalue,
    temporary; std::swap of two containers — from every fill level, followed by erase and a value-initialising append"""
    copyable = variant in "CTPS"
    for c in caps:
        for n in range(c + 1):
            pre = ("%s n,0,%d %s" % (variant, c, " ".join("eb,0,%d" % (k + 1) for k in range(n)))).rstrip()
            ops = ["eb,0,9~%d" % f for f in range(6)] + ["em,0,%d,9~%d" % (p, f) for p in range(n + 1) for f in range(6)]
            ops += ["im,0,9~0", "im,0,9~1", "emb,0,1,9~2"]
            if copyable:
                ops += ["in,0,9~0", "in,0,9~1", "pb,0,9~0", "pb,0,9~1", "pb,0,9~2"]
            for o in ops:
                yield "%s %s er,0,0 ebd,0" % (pre, o)
            for c2 in (0, 1, 3):
                for n2 in (0, c2):
                    other = ("n,1,%d %s" % (c2, " ".join("eb,1,%d" % (k + 5) for k in range(n2)))).rstrip()
                    yield "%s %s sw,0,1 eb,0,9 er,1,0 sw,1,0 ebd,1" % (pre, other)


def large_cases(variant, cap):
    """capacities beyond the exhaustive range (more than 64 / 255 elements): fill completely, overflow, erase and emplace
    in the middle and at both ends, copy / move"""
    fill = " ".join("eb,0,%d" % (k % 9 + 1) for k in range(cap))
    copyable = variant in "CTPS"
    tail = "eb,0,1 er,0,%d em,0,%d,7 em,0,0,8 er,0,0 er,0,%d po,0 em,0,%d,6 ebd,0" % (cap // 2, cap // 2, cap - 2, cap - 1)
    yield "%s n,0,%d %s %s %s" % (variant, cap, fill, tail, "cp,1,0 er,1,1 as,0,1 mv,2,1" if copyable else "mv,1,0 er,1,1 ma,0,1")


def ctor_fault_cases(variant, caps):
    """the element constructor invoked with the arguments of emplace_back / emplace throws (suffix !c), for the element types
    with NOEXCEPT moves (C, M) and with potentially throwing moves (T, U), every argument form the container constructs from,
    every fill level and position; afterwards the slot is reused (retry, append, value-initialising append, copy) and the
    container destroyed: every element object must still be alive exactly once"""
    copyable = variant in "CTPS"
    forms = [0, 1, 5] + ([4] if copyable else [])
    follow = ["eb,0,8", "ebd,0", "po,0", "er,0,0", "im,0,8"] + (["pb,0,8", "cp,1,0", "as,2,0"] if copyable else ["mv,1,0"])
    for c in caps:
        for n in range(c + 1):
            pre = ("%s n,0,%d n,2,1 %s" % (variant, c, " ".join("eb,0,%d" % (k + 1) for k in range(n)))).rstrip()
            ops = ["eb,0,9~%d!c" % f for f in forms] + ["em,0,%d,9~%d!c" % (p, f) for p in range(min(n + 1, c) + 1) for f in forms]
            for o in ops:
                for f in follow:
                    yield "%s %s %s" % (pre, o, f)
                yield "%s %s %s eb,0,7" % (pre, o, o)


def before_begin_cases(variant, caps):
    """erase / emplace / range insert at begin()-1 and begin()-2 (for an empty vector also end()-1, end()-2) from every state
    that two operations of the (reduced) alphabet reach, followed by two ordinary operations"""
    copyable = variant in "CTPS"
    B = ["erb,0,1", "erb,0,2", "emb,0,1,7", "emb,0,2,7"] + (["irb,0,1,7", "irb,0,2,78", "irb,0,1,_"] if copyable else [])
    for c in caps:
        A = alphabet(c, False, copyable)
        pre = "%s n,0,%d %s" % (variant, c, "nl,1,12" if copyable else "n,1,2 eb,1,1 eb,1,2")
        for s in itertools.product(A, repeat=2):
            for b in B:
                yield "%s %s %s eb,0,9 er,0,0" % (pre, " ".join(s), b)


def alias_alphabet(c):
    """operations whose argument refers to the container itself: emplace(begin()+pos, v[k]) for every k relative to
    pos, emplace_back/insert/push_back(v[k]), v = v, v = std::move(v)"""
    A = ["ea,0,%d,%d" % (p, k) for p in range(c + 1) for k in range(c)]
    A += ["%s,0,%d" % (n, k) for n in ("ba", "ia", "pa") for k in range(c)]
    # ranges [first,last) into the vector itself are outside the contract of a range insert (as for std::vector):
    # the drivers still understand sr/ps, but no stream generates them and nothing is compared for them
    A += ["as,0,0", "ma,0,0"]
    return A


def alias_cases(variant, caps, pair_caps, faults=False):
    """from every fill level with pairwise distinct values: an aliasing operation followed / preceded by an ordinary
    one, and (for the capacities in pair_caps) two aliasing operations in a row"""
    follow = ["eb,0,9", "po,0", "er,0,0", "em,0,0,8"]
    for c in caps:
        A = alias_alphabet(c)
        for n in range(c + 1):
            pre = "%s nf,0,%d,%s" % (variant, c, lst(range(1, n + 1)))
            for x in A:
                if faults:
                    for k in range(c + 2):
                        yield "%s %s!%d %s" % (pre, x, k, follow[n % len(follow)])
                    continue
                for f in follow:
                    yield "%s %s %s" % (pre, x, f)
                    yield "%s %s %s" % (pre, f, x)
                if c in pair_caps:
                    for y in A:
                        yield "%s %s %s" % (pre, x, y)


def fault_cases(variant, caps, deep):
    """every operation that assigns elements x every fault position, from every fill level, then one more operation"""
    copyable = variant == "T"
    follow = ["eb,0,3", "po,0", "er,0,0", "em,0,0,7"] + (["cp,1,0", "as,2,0"] if copyable else ["mv,1,0"])
    for c in caps:
        for n in range(c + 1):
            fill = " ".join("eb,0,%d" % (k + 1) for k in range(n))
            pre = ("%s n,0,%d n,2,1 %s" % (variant, c, fill)).rstrip()
            ops = ["eb,0,9", "im,0,9"] + ["em,0,%d,9" % p for p in range(c + 1)] + ["er,0,%d" % p for p in range(c + 1)]
            if copyable:
                ops += ["in,0,9", "pb,0,9", "pr,0,89", "pr,0,8", "cp,1,0", "as,2,0", "la,0,89", "la,2,789", "nf,1,%d,89" % c, "nl,1,789"]
                ops += ["ir,0,%d,89" % p for p in range(c + 1)] + ["il,0,%d,8" % p for p in range(c + 1)]
            for o in ops:
                for k in range(c + 2):
                    for f in (follow if deep else follow[:2]):
                        yield "%s %s!%d %s" % (pre, o, k, f)


# ------------------------------------------------------------------ reference (bounded list) used by the random generator
class Ref:
    """objects: None | dict(cap, l, mf)"""

    def __init__(self):
        self.o = [None] * NPOOL

    def live(self, i):
        return self.o[i] is not None and not self.o[i]["mf"]

    def step(self, name, a, xs):
        """apply (no faults); returns outcome char"""
        o = self.o
        i = a[0]
        if name == "n":
            o[i] = dict(cap=a[1], l=[], mf=False); return "D"
        if name == "nfv":
            j = a[2]
            if i == j or o[j] is None:
                return "S"
            if o[j]["mf"]:
                return "K"
            if len(o[j]["l"]) <= a[1]:
                o[i] = dict(cap=a[1], l=list(o[j]["l"]), mf=False); return "D"
            o[i] = None; return "R"
        if name in ("nf", "nfl", "nfa", "nfi"):
            if len(xs) <= a[1]:
                o[i] = dict(cap=a[1], l=list(xs), mf=False); return "D"
            o[i] = None; return "R"
        if name == "nl":
            o[i] = dict(cap=len(xs), l=list(xs), mf=False); return "D"
        if name == "de":
            o[i] = None; return "D"
        if name == "sw":
            j = a[1]
            if i == j or o[i] is None or o[j] is None:
                return "S"
            if o[i]["mf"] or o[j]["mf"]:
                return "K"
            o[i], o[j] = o[j], o[i]
            return "D"
        if name in ("cp", "mv", "as", "ma"):
            j = a[1]
            if o[j] is None or (name in ("cp", "mv") and i == j) or (name in ("as", "ma") and o[i] is None):
                return "S"
            if o[j]["mf"]:
                return "K"
            src = o[j]
            o[i] = dict(cap=src["cap"], l=list(src["l"]), mf=False)
            if name in ("mv", "ma"):
                # v = std::move(v) keeps its contents but is treated as moved-from by the comparison
                o[j] = dict(cap=src["cap"], l=(list(src["l"]) if i == j else []), mf=True)
            return "D"
        if name == "la":
            if o[i] is None:
                return "S"
            o[i] = dict(cap=len(xs), l=list(xs), mf=False); return "D"
        if o[i] is None:
            return "S"
        if o[i]["mf"]:
            return "K"
        c, l = o[i]["cap"], o[i]["l"]
        if name in ("at", "get"):
            return "D" if a[1] < len(l) else "R"
        if name in ("eb", "in", "im", "pb", "ebd"):
            if len(l) >= c:
                return "R"
            l.append(a[1] if name != "ebd" else 0); return "D"
        if name in ("erb", "emb", "irb"):
            return "R" if 1 <= a[1] <= 4 else "NA"
        if name == "emd":
            if a[1] > c:
                return "NA"
            if len(l) >= c or a[1] > len(l):
                return "R"
            l.insert(a[1], 0); return "D"
        if name == "em":
            if a[1] > c:
                return "NA"
            if len(l) >= c or a[1] > len(l):
                return "R"
            l.insert(a[1], a[2]); return "D"
        if name == "po":
            if not l:
                return "R"
            l.pop(); return "D"
        if name == "er":
            if a[1] > c:
                return "NA"
            if a[1] >= len(l):
                return "R"
            del l[a[1]]; return "D"
        if name == "ea":
            if a[1] > c:
                return "NA"
            if a[2] >= len(l):
                return "S"
            if len(l) >= c or a[1] > len(l):
                return "R"
            l.insert(a[1], l[a[2]]); return "D"
        if name in ("ba", "ia", "pa"):
            if a[1] >= len(l):
                return "S"
            if len(l) >= c:
                return "R"
            l.append(l[a[1]]); return "D"
        if name in ("sr", "ps"):
            pos, x, y = (a[1], a[2], a[3]) if name == "sr" else (len(l), a[1], a[2])
            if pos > c:
                return "NA"
            if not (x <= y <= len(l)):
                return "S"
            if pos > len(l):
                return "R"
            src = l[x:y]          # pre-state reading (the header differs when x < pos < y; irrelevant for sizes)
            w = src[: c - pos]
            l[pos:pos + len(w)] = w
            return "D" if len(src) <= c - pos else "R"
        if name in ("ir", "il", "pr", "irs", "prs"):
            pos = len(l) if name in ("pr", "prs") else a[1]
            if pos > c:
                return "NA"
            if pos > len(l):
                return "R"
            w = list(xs)[: c - pos]
            l[pos:pos + len(w)] = w
            return "D" if len(xs) <= c - pos else "R"
        raise ValueError(name)


def fmt(name, a, xs=None, plan=None):
    s = ",".join([name] + [str(x) for x in a])
    if xs is not None:
        s += "," + lst(xs)
    if plan is not None:
        s += "!%d" % plan
    return s


LISTY = ("nf", "nfl", "nfa", "nfi", "nl", "la", "ir", "irs", "il", "pr", "prs", "irb")


def random_case(rng, length, variant=None, malformed=0.03):
    variant = variant or rng.choice("CCCMTTUPPSQ")
    copyable = variant in "CTPS"
    throwing = variant in "TU"
    ref = Ref()
    ops = []
    for _ in range(length):
        i = rng.randrange(NPOOL)
        st = ref.o[i]
        bad = rng.random() < malformed
        val = rng.randint(1, 9)
        xs = [rng.randint(1, 9) for _ in range(rng.choice([0, 1, 1, 2, 2, 3, 4, 5]))]
        if bad:
            name = rng.choice(["n", "nf", "nl", "cp", "mv", "as", "ma", "la", "at", "get", "em", "eb", "in", "im", "pb", "ir", "il", "pr", "po", "er", "de",
                               "ea", "ba", "ia", "pa", "ebd", "emd", "erb", "emb", "irb", "nfl", "nfa", "nfi", "nfv", "irs", "prs"])
        elif st is None or (st["mf"] and rng.random() < 0.8):
            # (re)create / assign
            cands = ["n"] + (["nf", "nfl", "nfa", "nfi", "nfv", "nl", "cp"] if copyable else []) + ["mv"]
            if st is not None:
                cands += ["ma"] + (["as", "la"] if copyable else [])
            name = rng.choice(cands)
        else:
            cands = ["eb"] * 4 + ["im", "em", "em", "po", "er", "er", "at", "get", "mv", "ma", "n", "de", "ebd", "ebd", "emd", "erb", "emb", "sw"] + \
                    (["in", "pb", "pr", "pr", "ir", "il", "cp", "as", "la", "nf", "nl",
                      "ea", "ea", "ea", "ba", "ia", "pa", "irb", "sw", "nfl", "nfa", "nfi", "nfv", "irs", "prs"] if copyable else [])
            name = rng.choice(cands)
        size = len(st["l"]) if st else 0
        cap = st["cap"] if st else 0
        if name == "n":
            a = [i, rng.choice([0, 1, 1, 2, 2, 3, 3, 4, 5])]
        elif name == "nfv":
            others = [j for j in range(NPOOL) if j != i and ref.live(j)]
            a = [i, rng.choice([0, 1, 2, 3, 4, 5]), rng.choice(others) if others and not bad else rng.randrange(NPOOL)]
        elif name in ("nf", "nfl", "nfa", "nfi"):
            a = [i, rng.choice([0, 1, 2, 3, 4, 5])]
            if not bad and rng.random() < 0.8:
                xs = xs[: a[1]]
        elif name in ("nl", "la", "pr", "prs", "po", "de", "ebd"):
            a = [i]
            if name in ("pr", "prs") and not bad and rng.random() < 0.7:
                xs = xs[: max(0, cap - size)]
        elif name in ("cp", "mv", "as", "ma", "sw"):
            others = [j for j in range(NPOOL) if j != i and ref.live(j)]
            j = rng.choice(others) if others and not bad else rng.randrange(NPOOL)
            a = [i, j]
        elif name in ("at", "get"):
            a = [i, rng.randint(0, min(cap + 1, 5)) if rng.random() < 0.5 or size == 0 else rng.randrange(size)]
        elif name == "em":
            a = [i, rng.randint(0, size) if rng.random() < 0.8 else rng.randint(0, cap + 1), val]
        elif name in ("eb", "in", "im", "pb"):
            a = [i, val]
        elif name in ("ir", "il", "irs"):
            pos = rng.randint(0, size) if rng.random() < 0.8 else rng.randint(0, cap + 1)
            a = [i, pos]
            if not bad and rng.random() < 0.7:
                xs = xs[: max(0, cap - pos)]
        elif name == "er":
            a = [i, rng.randrange(size) if size and rng.random() < 0.8 else rng.randint(0, cap + 1)]
        elif name == "emd":
            a = [i, rng.randint(0, size) if rng.random() < 0.8 else rng.randint(0, cap + 1)]
        elif name == "erb":
            a = [i, rng.choice([1, 1, 2, 3]) if not bad else rng.choice([0, 5])]
        elif name == "emb":
            a = [i, rng.choice([1, 1, 2]), val]
        elif name == "irb":
            a = [i, rng.choice([1, 1, 2])]
        elif name == "ea":
            a = [i, rng.randint(0, size) if rng.random() < 0.85 else rng.randint(0, cap + 1),
                 rng.randrange(size) if size and rng.random() < 0.9 else rng.randint(0, cap + 1)]
        elif name in ("ba", "ia", "pa"):
            a = [i, rng.randrange(size) if size and rng.random() < 0.9 else rng.randint(0, cap + 1)]
        elif name in ("sr", "ps"):
            x = rng.randint(0, size)
            y = rng.randint(x, size) if rng.random() < 0.9 else rng.randint(0, cap + 1)
            a = ([i, rng.randint(0, size) if rng.random() < 0.85 else rng.randint(0, cap + 1), x, y] if name == "sr" else [i, x, y])
        else:
            raise ValueError(name)
        if bad and rng.random() < 0.3:
            a[0] = rng.choice([3, 4])
        plan = rng.randint(0, 4) if throwing and rng.random() < 0.15 else None
        if bad and not throwing and rng.random() < 0.2:
            plan = 0
        has_list = name in LISTY
        word = fmt(name, a, xs if has_list else None, None)
        if name in ("eb", "em", "in", "im", "pb", "emb") and rng.random() < 0.5:
            word += "~%d" % rng.randint(0, 5)
        if plan is None and variant in "CMTU" and name in ("eb", "em") and rng.random() < 0.08:
            word = word.split("~")[0] + "~%d!c" % rng.choice([0, 1, 5] + ([4] if copyable else []))
            plan_c = True
        else:
            plan_c = False
        ops.append(word + ("!%d" % plan if plan is not None else ""))
        # follow the reference only when the step is certainly executed without fault; otherwise stop tracking precisely
        if plan is None and not plan_c and all(x < NPOOL for x in a[:1]) and (copyable or name not in ("nf", "nl", "cp", "as", "la", "in", "pb", "ir", "il", "pr", "ea", "ba", "ia", "pa", "sr", "ps", "irb", "nfl", "nfa", "nfi", "nfv", "irs", "prs")) \
                and not (name in ("cp", "mv", "as", "ma", "sw") and a[1] >= NPOOL) and not (name in ("nl", "la", "il", "nfi") and len(xs) > 5) and not (name == "nfv" and a[2] >= NPOOL) \
                and not (name == "get" and a[1] > 5):
            ref.step(name, a, xs)
        elif plan is not None and a[0] < NPOOL and name in ("nf", "nfl", "nfa", "nfi", "nfv", "nl", "cp"):
            ref.o[a[0]] = None  # may or may not exist now; treat as absent for generation purposes
    return variant + " " + " ".join(ops)


def malformed_cases():
    yield "C"
    yield "M"
    yield "C eb,0,1 po,0 at,0,0 er,0,0 cp,1,0 mv,1,0 as,0,1 ma,0,1 la,0,12 de,0"
    yield "C n,3,1 n,0,1 cp,0,0 mv,0,0 ma,0,0 as,0,0 cp,3,0 cp,0,3 get,0,6 at,0,6"
    yield "C n,0,2 em,0,3,1 er,0,3 ir,0,3,1 il,0,3,1 il,0,0,123456 nl,1,123456 la,0,123456 la,0,12345"
    yield "M n,0,2 in,0,1 pb,0,1 pr,0,1 nl,1,1 nf,1,1,1 cp,1,0 as,0,0 la,0,1 ir,0,0,1 il,0,0,1 im,0,1"
    yield "C n,0,2 eb,0,1!0 em,0,0,1!0"
    yield "T n,0,2 eb,0,1!0 eb,0,1!1 n,1,0!0 po,0!0 at,0,0!0 mv,1,0!0 de,1!0"
    yield "C n,0,1 mv,1,0 eb,0,1 at,0,0 po,0 er,0,0 em,0,0,1 cp,2,0 mv,2,0 as,1,0 ma,1,0 de,0 n,0,1 eb,0,1"
    yield "C n,0,1 mv,1,0 la,0,12 eb,0,1 mv,2,0 as,0,1 eb,0,1 mv,1,0 ma,0,2 n,0,2 mv,2,0 nf,0,1,1 mv,2,0 nl,0,1"
    yield "U n,0,2 eb,0,1 mv,1,0 ma,0,1!0 mv,2,0 em,2,0,3!0 em,2,0,3!1"
    yield "C ea,0,0,0 n,0,2 ea,0,0,0 ba,0,0 eb,0,1 ea,0,0,1 ea,0,0,2 ea,0,3,0 ba,0,1 ea,3,0,0"
    yield "M n,0,2 eb,0,1 ea,0,0,0 ba,0,0 ia,0,0 pa,0,0 ma,0,0 eb,0,2 n,0,1"
    yield "C n,0,2 eb,0,1 ma,0,0 eb,0,2 at,0,0 as,0,0 eb,0,2 as,0,0 ea,0,0,0"
    yield "C erb,0,1 emb,0,1,1 irb,0,1,1 ebd,0 emd,0,0 n,0,1 erb,0,0 erb,0,5 emb,0,0,1 irb,0,9,1 emd,0,2 ebd,0 ebd,0 erb,3,1 mv,1,0 erb,0,1 ebd,0"
    yield "M n,0,1 irb,0,1,1 erb,0,1 emb,0,4,1 ebd,0 emd,0,0"
    yield "P nfa,0,9,1234567 nfi,0,9,123456 nfv,0,1,0 nfv,0,1,1 nfv,3,1,0 n,0,1 eb,0,1!0 irs,0,2,1 nfl,0,0,_ nfv,1,0,0 mv,2,0 nfv,1,3,0"
    yield "M nfl,0,1,1 nfa,0,1,1 nfi,0,1,1 n,0,1 nfv,1,1,0 irs,0,0,1 prs,0,1"
    yield "C sw,0,1 n,0,1 sw,0,1 sw,0,0 n,1,1 sw,0,3 mv,2,0 sw,0,1 sw,1,2 eb,1,1~9 sw,1,2"
    yield "Q n,0,1 in,0,1 pb,0,1 cp,1,0 nl,1,1 eb,0,1~4 eb,0,2 sw,0,1"
    yield "T n,0,1 n,1,1 sw,0,1!0"
    yield "C n,0,1 ebd,0!c emd,0,0!c in,0,1!c pb,0,1!c eb,0,1~2!c eb,0,1~3!c po,0!c n,1,1!c eb,0,1!cc eb,0,1!"
    yield "P n,0,1 eb,0,1!c em,0,0,1!c"
    yield "M n,0,1 eb,0,1~4!c eb,0,1!c eb,0,1"


class VecCheck(Check):
    """common part of the C06 / C07 plug-ins"""
    cpp = dict(name="vec", driver_src="harness/vec_driver.cpp")
    ocaml = dict(name="vec", extracted="vec_model.ml", glue=("glue_base.ml",))
    design_ref = "DESIGN.md section 6, Fixed-vector cluster (C06, C07)"

    _memo = (None, None)

    def normalize(self, case, obs):
        # prefix a summary word (the set of step outcomes seen) so that the evidence groups observations by kind;
        # the oracle ignores it.  Crash / hang / protocol observations are left alone.
        # (the framework normalises the implementation's and the model's line one after the other: one-entry memo)
        if obs == self._memo[0]:
            return self._memo[1]
        if not obs or obs.startswith(("CRASH", "HANG", "OTHER", "PROTOCOL", "BADCASE", "MODEL-", "k=")):
            r = obs
        else:
            kinds = set()
            for t in obs.split(" "):
                kinds.add(t[:2] if t[0] in "NE" else t[0])
            r = "k=" + "".join(sorted(kinds)) + " " + obs
        self._memo = (obs, r)
        return r

    def nontrivial(self, case, mobs, iobs):
        # some object held at least one element at some step
        return re.search(r",s[1-9]", iobs) is not None

    def signature(self, case, mobs, iobs):
        # variant, the last two (operation, fault plan?, outcome) pairs, outcome kinds of the whole case, moved-from object seen?
        w = case.split(" ")
        toks = iobs.split(" ")
        last = tuple((o.split(",", 1)[0], "!" in o, t[:1]) for o, t in zip(w[-2:], toks[-2:]))
        return (w[0], last, toks[0], "MF" in iobs)

    def shrink(self, case):
        w = case.split()
        for k in range(len(w) - 1, 0, -1):
            yield " ".join(w[:k] + w[k + 1:])
        for k in range(1, len(w)):
            if "!" in w[k]:
                yield " ".join(w[:k] + [w[k].split("!")[0]] + w[k + 1:])
        # smaller capacities / shorter lists
        for k in range(1, len(w)):
            f = w[k].split("!")[0].split(",")
            suffix = w[k][len(w[k].split("!")[0]):]
            if f[0] in LISTY and f[-1] != "_" and len(f[-1]) > 0:
                yield " ".join(w[:k] + [",".join(f[:-1] + [f[-1][:-1] or "_"]) + suffix] + w[k + 1:])


def self_test(n=300, seed=7):
    """generator self-test: the Python reference agrees with nothing it is not asked about; only checks that
    generated cases are well-formed words"""
    import random
    rng = random.Random(seed)
    for _ in range(n):
        c = random_case(rng, 20)
        assert re.fullmatch(r"[CMTUPSQ]( [a-z]+(,[0-9_]+)+(~[0-9])?(![0-9]+|!c)?)*", c), c
    return True

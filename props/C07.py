# props/C07.py — fixed_vector behaves as a bounded sequence, including copy, move and assignment
from props.vec_common import ctor_fault_cases, forms_cases, large_cases, ctor_cases, before_begin_cases, alias_cases, VecCheck, exhaustive, fault_cases, random_case, malformed_cases, small_alphabet_cases


class C07(VecCheck):
    prop = "C07"
    vfiles = ["Properties/Properties_C07.v", "Extract/Extract_Vec.v"]
    corpus = "C07.txt"
    technique = ("Coq refinement proof: the executable model of fixed_vector.hpp (statement-by-statement, with the element-shifting loops) refines "
                 "a bounded-list specification, operation by operation and for every history over a pool of objects + extraction-based "
                 "differential test against the C++ with the full observable state compared after every step")
    level_text = ("Proved in Coq for ALL capacities, arguments and finite operation histories (element assignments that do not throw): the visible "
                  "sequence abs = first size_ slots evolves exactly as the bounded list does — the four append operations add at the end, erase "
                  "removes one element and keeps the order, positional emplace inserts before the position, pop removes the last, "
                  "push_back(first,last) appends what fits, insert(pos,first,last) OVERWRITES from pos (as the header is written), copy "
                  "construction/assignment give an equal container and operations touch only their own object, move construction/assignment "
                  "transfer the whole sequence (moved-from source: only validity), list assignment replaces contents and capacity, forward "
                  "iteration = abs, reverse iteration = rev abs, at()/operator[] = nth; an argument that refers to an element of the same vector "
                  "(emplace(pos, v[k]), emplace_back/insert/push_back(v[k])) is read as it was BEFORE the operation (iterator ranges into the vector "
                  "itself are outside the contract: the model has them with a side condition as a remark, the check does not exercise them). The model is tied to /repo by the differential run; the "
                  "oracle is the extracted bounded-list interpreter `sstep`.")
    level_note = ("trusted: Coq kernel, ExtrOcamlBasic extraction, OCaml compiler, the differential harness; that a C++ copy does not share storage "
                  "with its source is exercised by the driver (snapshots of untouched objects after every step), in the functional model it holds by "
                  "construction; nitro::lang::reverse over a fixed_vector (lvalue, const lvalue, rvalue copy) is exercised by the driver and compared "
                  "with rbegin..rend, not modelled separately; the correspondence is bounded-exhaustive + sampled, not proved")
    rule = ("operation sequences for the pool interpreter, full observable state (size, capacity, operator[], at() for 0..capacity+1, std::get, "
            "begin..end, rbegin..rend, nitro::lang::reverse, data(), front/back, const and non-const) compared after every step: (i) exhaustive "
            "depth 3 over the full alphabet and depth 4 (quick) / 5 (thorough) over a reduced alphabet, capacities 0..3, values {1,2,3} and the argument-less emplace_back()/emplace(pos) (a value-initialised element), every "
            "position 0..capacity, copy/move/assign between objects included, copyable and move-only element types; (ii) random sequences of "
            "length 30 over three objects (capacities 0..5, values 1..9); (iii) a sample of fault cases continued after the throw; (iv) malformed "
            "stream; (v) corpus of the pre-repair witnesses; (vi) aliasing arguments: emplace(begin()+pos, v[k]) for every k relative to pos, "
            "emplace_back/insert/push_back(v[k]), v = v, v = std::move(v) (iterator ranges into the vector itself are outside the contract and not compared), "
            "from every fill level with pairwise distinct values, alone, before/after an ordinary operation and in pairs. A case is non-trivial when some object holds at least one element at some step; "
            "distinct = distinct case line.")
    modelled_note = ("modelled, not verified: element assignment = value transfer; std::unique_ptr<T[]>; std::reverse_iterator; independence of "
                     "copies (no shared storage) holds by construction in the model and is exercised on the C++ by the driver's snapshots")

    def cases(self, tier, rng):
        caps = range(4)
        for c in malformed_cases():
            yield c, "malformed"
        for c in alias_cases("C", range(5), (0, 1, 2, 3) if tier == "quick" else range(5)):
            yield c, "alias-C"
        if tier == "thorough":
            for c in alias_cases("T", range(4), (), faults=True):
                yield c, "alias-faults-T"
        if tier == "thorough":
            for c in before_begin_cases("C", caps):
                yield c, "before-begin-C"
        for v in ("C", "P"):
            for c in ctor_cases(v, caps):
                yield c, "ctor-sources-" + v
        for c in ctor_cases("T", caps, faults=True):
            yield c, "ctor-sources-faults-T"
        for c in exhaustive("P", caps, 2 if tier == "quick" else 3, True):
            yield c, "exh-P"
        for v in ("C", "M", "P", "S", "Q", "T"):
            for c in forms_cases(v, range(1, 4)):
                yield c, "forms-" + v
        for v in ("S", "Q"):
            for c in exhaustive(v, caps, 2 if tier == "quick" else 3, v == "Q" or tier == "thorough"):
                yield c, "exh-" + v
        for c in ctor_cases("S", caps):
            yield c, "ctor-sources-S"
        for v, cap in (("P", 70), ("C", 70), ("S", 66), ("Q", 66)) + ((("P", 260), ("C", 130)) if tier == "thorough" else ()):
            for c in large_cases(v, cap):
                yield c, "large"
        for v in (("C", "M", "T", "U") if "C06" in __name__ or tier == "thorough" else ("C", "M")):
            for c in ctor_fault_cases(v, range(1, 4)):
                yield c, "ctor-throws-" + v
        for c in exhaustive("C", caps, 3, True):
            yield c, "exh3-C"
        for c in small_alphabet_cases("C", caps, 4 if tier == "quick" else 5):
            yield c, "exh-deep-C"
        for c in exhaustive("M", caps, 3, True):
            yield c, "exh3-M"
        if tier == "thorough":
            for c in exhaustive("M", caps, 4, True):
                yield c, "exh4-M"
        for v in ("T", "U"):
            for c in fault_cases(v, caps, deep=False):
                yield c, "faults-" + v
        R = 3000 if tier == "quick" else 60000
        for _ in range(R):
            yield random_case(rng, 30, variant=rng.choice("CCCM")), "random"
        for _ in range(R // 8):
            yield random_case(rng, 30, variant=rng.choice("TU")), "random-faults"


CHECK = C07
